"""vmon: runtime-monitoring harness for cortex-lab/phylib (see /verif/DESIGN.md)."""
