"""Check driver: plans a property's workload, runs it in subprocess shards against the tree under
test with the monitors installed, folds what the monitors observed into a three-valued verdict and
rewrites the evidence file.

    python -m vmon.runner <ID> [quick|thorough] [--seed N] [--repo DIR] [--replay FILE] [--jobs N]

exit 0  held on everything observed (KNOWN-FINDING lines possible)
exit 1  at least one violation not listed as an open known finding (VIOLATION lines)
exit 2  inconclusive (INCONCLUSIVE line; never a VIOLATION line)
"""
import argparse
import hashlib
import importlib
import json
import os
import shutil
import subprocess
import sys
import time
from collections import Counter

import numpy as np

from . import known
from .core import VERIF_ROOT, scratch_dir

WATCHDOG = {'quick': 900, 'thorough': 3 * 3600}


def tree_sha(repo):
    h = hashlib.sha256()
    root = os.path.join(repo, 'phylib')
    for dp, dn, fn in sorted(os.walk(root)):
        dn.sort()
        for f in sorted(fn):
            if f.endswith('.py'):
                p = os.path.join(dp, f)
                h.update(os.path.relpath(p, repo).encode())
                with open(p, 'rb') as fh:
                    h.update(fh.read())
    return h.hexdigest()


def child_env(repo, scratch):
    env = dict(os.environ)
    env['PYTHONPATH'] = os.pathsep.join([repo, VERIF_ROOT])
    env['PHYLIB_REPO'] = repo
    env['PHYLIB_VERIF'] = '1'
    env['PYTHONHASHSEED'] = '0'
    env['PYTHONDONTWRITEBYTECODE'] = '1'
    for v in ('OMP_NUM_THREADS', 'OPENBLAS_NUM_THREADS', 'MKL_NUM_THREADS'):
        env[v] = '1'
    env['TMPDIR'] = scratch
    env['VMON_SCRATCH'] = scratch
    env.pop('PHY_VIRTUAL_RAW_DATA', None)
    return env


def run_jobs(prop, jobs, repo, scratch, n_par, timeout):
    """Run shard jobs in up to n_par subprocesses. Returns list of result dicts (or failure)."""
    env = child_env(repo, scratch)
    pending = list(enumerate(jobs))
    running = {}
    results = [None] * len(jobs)
    t_start = time.time()
    while pending or running:
        while pending and len(running) < n_par:
            i, job = pending.pop(0)
            jf = os.path.join(scratch, 'job%d.json' % i)
            of = os.path.join(scratch, 'out%d.json' % i)
            with open(jf, 'w') as f:
                json.dump(job, f)
            log = open(os.path.join(scratch, 'log%d.txt' % i), 'w')
            p = subprocess.Popen([sys.executable, '-m', 'vmon.shard', prop, jf, of],
                                 env=env, cwd=scratch, stdout=log, stderr=subprocess.STDOUT)
            running[i] = (p, of, log, time.time())
        done = []
        for i, (p, of, log, t0) in running.items():
            rc = p.poll()
            if rc is None:
                if time.time() - t0 > timeout:
                    p.kill()
                    p.wait()
                    results[i] = {'failed': 'watchdog timeout after %ds' % timeout}
                    done.append(i)
                continue
            log.close()
            if rc != 0 or not os.path.exists(of):
                with open(log.name) as f:
                    tail = f.read()[-3000:]
                results[i] = {'failed': 'shard exited with %s' % rc, 'log': tail}
            else:
                with open(of) as f:
                    r = json.load(f)
                ntf = of + '.nt.npy'
                r['nontrivial'] = np.load(ntf) if os.path.exists(ntf) else np.zeros(0, np.uint64)
                with open(log.name) as f:
                    r['log'] = f.read()[-1500:]
                results[i] = r
            done.append(i)
        for i in done:
            running.pop(i)
        if not done:
            time.sleep(0.02)
    return results, time.time() - t_start


def main(argv=None):
    ap = argparse.ArgumentParser()
    ap.add_argument('prop')
    ap.add_argument('tier', nargs='?', default=None)
    ap.add_argument('--seed', type=int, default=None)
    ap.add_argument('--repo', default=None)
    ap.add_argument('--replay', default=None)
    ap.add_argument('--jobs', type=int, default=None)
    ap.add_argument('--no-evidence', action='store_true')
    args = ap.parse_args(argv)

    prop = args.prop.upper()
    tier = args.tier or os.environ.get('VERIF_TIER') or 'quick'
    if tier not in ('quick', 'thorough'):
        tier = 'quick'
    seed = args.seed if args.seed is not None else int(os.environ.get('VERIF_SEED', '0') or 0)
    repo = os.path.realpath(args.repo or os.environ.get('PHYLIB_REPO') or '/repo')
    n_par = args.jobs or int(os.environ.get('VERIF_JOBS', '0') or 0) or min(16, os.cpu_count() or 4)

    sys.path.insert(0, VERIF_ROOT)
    try:
        mod = importlib.import_module('props.' + prop.lower())
    except Exception:
        import traceback
        print('INCONCLUSIVE property=%s reason=the driver props/%s.py could not be imported: %s' % (
            prop, prop.lower(), traceback.format_exc().replace('\n', ' | ')[-600:]))
        return 2
    level = getattr(mod, 'LEVEL', 'exploration')
    scratch = scratch_dir('vmon_%s_' % prop)
    t0 = time.time()

    if args.replay:
        with open(args.replay) as f:
            rp = json.load(f)
        jobs = [{'mode': 'replay', 'case': rp['case'], 'tier': tier, 'seed': seed}]
    else:
        descs = mod.plan(tier, seed)
        jobs = [{'mode': 'shard', 'desc': d, 'tier': tier, 'seed': seed} for d in descs]

    results, wall_shards = run_jobs(prop, jobs, repo, scratch, n_par, WATCHDOG[tier])

    # ---- fold ---------------------------------------------------------------------------------
    inconclusive = []
    evaluations = 0
    nt = []
    cells, monitors, notes, warns = Counter(), Counter(), Counter(), Counter()
    samples, witnesses = [], []
    sig_counts = Counter()
    n_viol = 0
    anchors = {}
    shim = []
    for i, r in enumerate(results):
        if r is None or 'failed' in r:
            inconclusive.append('shard %d: %s %s' % (i, (r or {}).get('failed'),
                                                    (r or {}).get('log', '')[-800:]))
            continue
        if r.get('import_error'):
            inconclusive.append('phylib could not be imported: ' + r['import_error'][-1500:])
            continue
        if r.get('harness_error'):
            inconclusive.append('harness error in shard %d: %s' % (i, r['harness_error'][-2500:]))
        shim = r.get('shim', shim)
        evaluations += r.get('evaluations', 0)
        nt.append(r['nontrivial'])
        cells.update(r.get('cells', {}))
        monitors.update(r.get('monitors', {}))
        notes.update(r.get('notes', {}))
        warns.update(r.get('warnings', {}))
        for s in r.get('samples', []):
            if len(samples) < 8:
                samples.append(s)
        witnesses.extend(r.get('violations', []))
        sig_counts.update(r.get('violation_sigs', {}))
        n_viol += r.get('n_violations', 0)
        for spec, rep in (r.get('anchors') or {}).items():
            if rep == 'anchor_missing':
                anchors[spec] = 'anchor_missing'
            else:
                cur = anchors.setdefault(spec, {'hit': set(), 'total': rep['total']})
                if isinstance(cur, dict):
                    cur['hit'] |= set(rep['hit'])
    distinct_nt = int(len(np.unique(np.concatenate(nt)))) if nt else 0

    # ---- violations vs known findings ------------------------------------------------------------
    open_findings = known.load_open()
    by_sig = {}
    for w in witnesses:
        by_sig.setdefault(w['sig'], w)
    new, knowns = [], {}
    for sig, w in sorted(by_sig.items()):
        m = known.match(w, open_findings)
        if m:
            knowns.setdefault(m, []).append(w)
        else:
            new.append(w)
    sha = tree_sha(repo)
    replay_dir = os.path.join(os.environ.get('VMON_REPLAY_DIR') or os.path.join(VERIF_ROOT, 'replays'), prop)
    lines = []
    for w in new:
        os.makedirs(replay_dir, exist_ok=True)
        name = '%s-%s.json' % (''.join(c if c.isalnum() else '_' for c in w['kind'])[:40],
                               hashlib.sha1(w['sig'].encode()).hexdigest()[:10])
        path = os.path.join(replay_dir, name)
        rec = dict(w)
        rec.update({'tier': tier, 'seed': seed, 'tree_sha': sha,
                    'count_with_same_signature': sig_counts.get(w['sig'], 1),
                    'replay_cmd': 'bin/check %s --replay %s' % (prop, path)})
        with open(path, 'w') as f:
            json.dump(rec, f, indent=1)
        lines.append('VIOLATION property=%s replay=%s' % (prop, path))
        print('  [%s] %s' % (w['kind'], w['msg'][:300]))
    for (key, text), ws in sorted(knowns.items()):
        print('KNOWN-FINDING: property=%s key=%s %s (%d witnesses this run)' % (
            prop, key, text, sum(sig_counts.get(w['sig'], 1) for w in ws)))

    # ---- floors / anchors --------------------------------------------------------------------
    floors = (getattr(mod, 'FLOORS', {}) or {}).get(tier, {})
    if not args.replay:
        if evaluations < floors.get('evaluations', 1):
            inconclusive.append('only %d evaluations (< floor %d)' % (
                evaluations, floors.get('evaluations', 1)))
        if distinct_nt < floors.get('distinct_nontrivial', 2):
            inconclusive.append('only %d distinct non-trivial cases (< floor %d)' % (
                distinct_nt, floors.get('distinct_nontrivial', 2)))
        for name, fl in (floors.get('monitors') or {}).items():
            if monitors.get(name, 0) < fl:
                inconclusive.append('monitor %s saw %d events (< floor %d)' % (
                    name, monitors.get(name, 0), fl))
        for spec in getattr(mod, 'ANCHORS_REQUIRED', getattr(mod, 'ANCHORS', ())):
            rep = anchors.get(spec)
            if isinstance(rep, dict) and not rep['hit']:
                inconclusive.append('anchored function %s was never executed' % spec)
    anchor_rep = {k: (v if not isinstance(v, dict) else '%d/%d lines' % (len(v['hit']), v['total']))
                  for k, v in sorted(anchors.items())}

    wall = time.time() - t0
    # ---- evidence ----------------------------------------------------------------------------
    if not args.replay and not args.no_evidence:
        ev = {
            'property_id': prop, 'tier': tier, 'seed': seed, 'level': level,
            'coverage': {
                'evaluations': int(evaluations),
                'distinct_nontrivial': distinct_nt,
                'rule': getattr(mod, 'RULE', ''),
                'samples': samples or ['<none>'],
                'exhaustive': bool((getattr(mod, 'EXHAUSTIVE', {}) or {}).get(tier, False)),
                'exhaustive_scope': (getattr(mod, 'EXHAUSTIVE_SCOPE', {}) or {}).get(tier, ''),
                'cells': dict(sorted(cells.items())[:400]),
                'n_cells': len(cells),
                'monitor_events': dict(sorted(monitors.items())),
                'notes': dict(sorted(notes.items())),
                'anchor_reach': anchor_rep,
                'phylib_warnings': dict(warns.most_common(15)),
                'shards': len(jobs),
                'known_findings_seen': sorted(k for (k, _t) in knowns),
                'verdict': ('violated' if new else
                            ('inconclusive' if inconclusive else 'held_on_observed')),
                'inconclusive_reasons': [s[:500] for s in inconclusive],
                'tree_sha': sha,
                'repo': repo,
            },
            'assumptions': list(getattr(mod, 'ASSUMPTIONS', [])) + [
                'NumPy-2 import shim applied in the harness: %s' % (shim or 'not needed'),
                'oracles in /verif/ref and /verif/props are correct; NumPy itself is trusted',
                'verdict covers only the executions produced by this run',
            ],
            'wall_s': round(wall, 2),
            'violations': int(len(new)),
        }
        os.makedirs(os.path.join(VERIF_ROOT, 'evidence'), exist_ok=True)
        tmp = os.path.join(VERIF_ROOT, 'evidence', '.%s.json.tmp' % prop)
        with open(tmp, 'w') as f:
            json.dump(ev, f, indent=1, sort_keys=True)
        os.replace(tmp, os.path.join(VERIF_ROOT, 'evidence', '%s.json' % prop))

    shutil.rmtree(scratch, ignore_errors=True)
    print('%s %s seed=%d: %d evaluations, %d distinct non-trivial, %d violation witnesses '
          '(%d signatures; %d new), monitors checked=%d, %.1fs' % (
              prop, tier, seed, evaluations, distinct_nt, n_viol, len(by_sig), len(new),
              sum(v for k, v in monitors.items() if k.endswith('.checked')), wall))
    for ln in lines:
        print(ln)
    if new:
        return 1
    if inconclusive:
        for s in inconclusive[:5]:
            print('INCONCLUSIVE property=%s reason=%s' % (prop, s.replace('\n', ' | ')[-700:]))
        return 2
    return 0


if __name__ == '__main__':
    sys.exit(main())
