"""Core of the harness: JSON codec for cases, the per-shard context (event counters, verdict
material), scratch directories, comparison helpers.

Nothing in here imports phylib.
"""
import atexit
import hashlib
import json
import os
import shutil
import tempfile
import time
import traceback
from collections import Counter

import numpy as np

VERIF_ROOT = os.path.dirname(os.path.dirname(os.path.abspath(__file__)))


# ------------------------------------------------------------------------------------------
# JSON codec (cases must be replayable from a file)
# ------------------------------------------------------------------------------------------

def enc(o):
    """Encode a case object into JSON-able form (ndarray, slice, tuple, numpy scalars, bytes)."""
    if isinstance(o, np.ndarray):
        if o.dtype.kind == 'f':
            data = [None if (x != x) else (('inf' if x > 0 else '-inf') if x in (np.inf, -np.inf)
                                            else float(x)) for x in o.ravel().tolist()]
        elif o.dtype.kind in 'iub':
            data = o.ravel().tolist()
        else:
            data = [str(x) for x in o.ravel().tolist()]
        return {'__nd__': data, 'dtype': o.dtype.str, 'shape': list(o.shape)}
    if isinstance(o, np.generic):
        return {'__np__': o.item() if o == o else None, 'dtype': o.dtype.str}
    if isinstance(o, slice):
        return {'__slice__': [enc(o.start), enc(o.stop), enc(o.step)]}
    if isinstance(o, tuple):
        return {'__tuple__': [enc(x) for x in o]}
    if isinstance(o, bytes):
        return {'__bytes__': o.hex()}
    if isinstance(o, float):
        if o != o:
            return {'__float__': 'nan'}
        if o in (float('inf'), float('-inf')):
            return {'__float__': 'inf' if o > 0 else '-inf'}
        return o
    if isinstance(o, dict):
        if all(isinstance(k, str) for k in o):
            return {k: enc(v) for k, v in o.items()}
        return {'__dict__': [[enc(k), enc(v)] for k, v in o.items()]}
    if isinstance(o, (list,)):
        return [enc(x) for x in o]
    if isinstance(o, (set, frozenset)):
        return {'__set__': [enc(x) for x in sorted(o, key=repr)]}
    if o is None or isinstance(o, (bool, int, str)):
        return o
    if isinstance(o, type) and issubclass(o, np.generic):
        return {'__dtype__': np.dtype(o).str}
    if isinstance(o, np.dtype):
        return {'__dtype__': o.str}
    return {'__repr__': repr(o)}


def dec(o):
    if isinstance(o, list):
        return [dec(x) for x in o]
    if isinstance(o, dict):
        if '__nd__' in o:
            dt = np.dtype(o['dtype'])
            data = o['__nd__']
            if dt.kind == 'f':
                data = [np.nan if x is None else (np.inf if x == 'inf' else
                                                  (-np.inf if x == '-inf' else x)) for x in data]
            return np.array(data, dtype=dt).reshape(o['shape'])
        if '__np__' in o:
            dt = np.dtype(o['dtype'])
            v = o['__np__']
            return dt.type(np.nan if v is None else v)
        if '__slice__' in o:
            return slice(*[dec(x) for x in o['__slice__']])
        if '__tuple__' in o:
            return tuple(dec(x) for x in o['__tuple__'])
        if '__bytes__' in o:
            return bytes.fromhex(o['__bytes__'])
        if '__float__' in o:
            return float(o['__float__'])
        if '__dict__' in o:
            return {dec(k): dec(v) for k, v in o['__dict__']}
        if '__set__' in o:
            return set(dec(x) for x in o['__set__'])
        if '__dtype__' in o:
            return np.dtype(o['__dtype__'])
        if '__repr__' in o:
            return o['__repr__']
        return {k: dec(v) for k, v in o.items()}
    return o


def short(o, n=400):
    """Short printable form for witnesses."""
    try:
        s = json.dumps(enc(o), sort_keys=True, default=repr)
    except Exception:
        s = repr(o)
    return s if len(s) <= n else s[:n] + '...<%d chars>' % len(s)


def hkey(*parts):
    """Stable 64-bit hash of a case key (for distinct counting across shards)."""
    h = hashlib.blake2b(repr(parts).encode(), digest_size=8).digest()
    return int.from_bytes(h, 'little')


# ------------------------------------------------------------------------------------------
# Scratch space
# ------------------------------------------------------------------------------------------

_SCRATCH = []


_N_SCRATCH = [0]
ODD_NAME = 'w [1]*?\u00e9'      # space, glob metacharacters, a non-ASCII character


def scratch_dir(prefix='vmon_'):
    """A fresh scratch directory. Every second one is nested in a folder whose name holds a space, glob
    metacharacters and a non-ASCII character, so that every file-based workload also runs under such a path
    (VMON_PLAIN_DIRS=1 turns that off)."""
    base = '/dev/shm' if os.path.isdir('/dev/shm') and os.access('/dev/shm', os.W_OK) else None
    d = tempfile.mkdtemp(prefix=prefix, dir=base)
    _SCRATCH.append(d)
    _N_SCRATCH[0] += 1
    if (_N_SCRATCH[0] + os.getpid()) % 2 == 0 and not os.environ.get('VMON_PLAIN_DIRS'):
        d = os.path.join(d, ODD_NAME)
        os.mkdir(d)
    return d


def _cleanup():
    for d in _SCRATCH:
        shutil.rmtree(d, ignore_errors=True)


atexit.register(_cleanup)


# ------------------------------------------------------------------------------------------
# Comparison helpers (never raise on malformed output: a malformed output is a difference)
# ------------------------------------------------------------------------------------------

def ulp_tol(x):
    """Relative tolerance of a few units in the last place for floating results (NumPy's strided and
    contiguous inner loops of pow/divide may differ in the last bit); 0 for exact dtypes."""
    dt = np.asarray(x).dtype
    return 8 * float(np.finfo(dt).eps) if dt.kind == 'f' else 0


def same(a, b, dtype=True, rtol=0, atol=0, equal_nan=True):
    """Return None if arrays a (observed) and b (expected) agree, else a string saying how not."""
    try:
        if not isinstance(a, np.ndarray):
            a = np.asarray(a)
        b = np.asarray(b)
        if a.shape != b.shape:
            return 'shape %s != expected %s' % (a.shape, b.shape)
        if dtype and a.dtype != b.dtype and a.dtype.newbyteorder('=') != b.dtype.newbyteorder('='):
            # (byte order is not part of the value: np.concatenate of big-endian parts is native too)
            return 'dtype %s != expected %s' % (a.dtype, b.dtype)
        if a.size == 0:
            return None
        if rtol or atol:
            ok = np.isclose(a, b, rtol=rtol, atol=atol, equal_nan=equal_nan)
        else:
            if a.dtype.kind == 'f' or b.dtype.kind == 'f':
                ok = (a == b) | ((a != a) & (b != b) if equal_nan else False)
            else:
                ok = (a == b)
        ok = np.asarray(ok)
        if ok.all():
            return None
        idx = tuple(int(i) for i in np.argwhere(~ok)[0])
        return 'value at %s: %r != expected %r (%d/%d entries differ)' % (
            idx, a[idx].item() if a[idx].ndim == 0 else a[idx],
            b[idx].item() if b[idx].ndim == 0 else b[idx], int((~ok).sum()), ok.size)
    except Exception as e:  # pragma: no cover
        return 'not comparable (%s: %s)' % (type(e).__name__, e)


_ID_FORMS = (int, np.int64, np.uint16, np.int32, np.uint32, np.uint64, np.int16)


def as_id(i, k):
    """The id i as a Python int or as a NumPy scalar of a rotating integer dtype (what iterating over
    np.unique(spike_clusters) hands to user code); falls back to int when the value does not fit."""
    f = _ID_FORMS[k % len(_ID_FORMS)]
    if f is int:
        return int(i)
    info = np.iinfo(f)
    return f(i) if info.min <= int(i) <= info.max else int(i)


class Called(object):
    """Result of calling code under test: either .value or .exc (with traceback text)."""
    __slots__ = ('ok', 'value', 'exc', 'tb')

    def __init__(self, ok, value=None, exc=None, tb=None):
        self.ok, self.value, self.exc, self.tb = ok, value, exc, tb

    @property
    def exc_name(self):
        return type(self.exc).__name__ if self.exc is not None else None


def call(f, *a, **k):
    """Call code under test; exceptions are captured (they are observations, not harness bugs)."""
    try:
        return Called(True, f(*a, **k))
    except Exception as e:
        tb = traceback.format_exc(limit=12)
        return Called(False, exc=e, tb=tb)


def tb_site(tb):
    """Innermost phylib frame of a traceback text: 'file.py:func' (for mechanism classification)."""
    site = None
    if not tb:
        return site
    for line in tb.splitlines():
        line = line.strip()
        if line.startswith('File "') and '/phylib/' in line:
            try:
                path = line.split('"')[1]
                func = line.rsplit(' in ', 1)[1]
                site = '%s:%s' % (os.path.basename(path), func)
            except Exception:
                pass
    return site


# ------------------------------------------------------------------------------------------
# Per-shard context
# ------------------------------------------------------------------------------------------

class Ctx(object):
    """Accumulates what one shard observed."""
    MAX_WITNESS_PER_SIG = 2
    MAX_VIOLATIONS_KEPT = 60

    def __init__(self, prop, tier='quick', seed=0, replay=False):
        self.prop = prop
        self.tier = tier
        self.seed = seed
        self.replay = replay
        self.evaluations = 0
        self.nontrivial = set()
        self.cells = Counter()
        self.monitors = Counter()
        self.samples = []
        self.violations = []          # kept witnesses
        self.violation_sigs = Counter()  # signature -> count (all)
        self.n_violations = 0
        self.notes = Counter()        # free-form tallies (out_of_domain etc.)
        self.t0 = time.time()
        self.current_case = None

    # counting -------------------------------------------------------------------------
    def count(self, n=1, key=None, nontrivial=False, cell=None):
        self.evaluations += n
        if nontrivial and key is not None:
            self.nontrivial.add(key if isinstance(key, int) else hkey(key))
        if cell is not None:
            self.cells[cell if isinstance(cell, str) else '|'.join(map(str, cell))] += n

    def nt(self, *key):
        self.nontrivial.add(hkey(*key))

    def cell(self, *cell, n=1):
        self.cells['|'.join(map(str, cell))] += n

    def mon(self, name, n=1):
        self.monitors[name] += n

    def note(self, name, n=1):
        self.notes[name] += n

    def sample(self, case, every=1, cap=6):
        if len(self.samples) < cap and (self.evaluations % every == 0 or not self.samples):
            self.samples.append(short(case, 700))

    # violations -------------------------------------------------------------------------
    def violation(self, kind, case, msg, features=None, tb=None, monitor=None):
        """Record a refuting observation.

        kind     : short mechanism name of *what was observed* (e.g. 'value_mismatch')
        case     : explicit, replayable case (will be encoded)
        features : structural features of the case/failure used by known-finding classifiers
        """
        features = dict(features or {})
        if tb and 'site' not in features:
            features['site'] = tb_site(tb)
        sig = '%s|%s' % (kind, json.dumps(features, sort_keys=True, default=repr))
        self.n_violations += 1
        self.violation_sigs[sig] += 1
        if self.violation_sigs[sig] <= self.MAX_WITNESS_PER_SIG and \
                len(self.violations) < self.MAX_VIOLATIONS_KEPT:
            self.violations.append({
                'property': self.prop, 'kind': kind, 'features': features, 'sig': sig,
                'msg': str(msg)[:2000], 'case': enc(case), 'traceback': tb,
                'monitor': monitor,
            })

    def result(self):
        return {
            'evaluations': self.evaluations,
            'nontrivial': sorted(self.nontrivial),
            'cells': dict(self.cells),
            'monitors': dict(self.monitors),
            'notes': dict(self.notes),
            'samples': self.samples,
            'violations': self.violations,
            'violation_sigs': dict(self.violation_sigs),
            'n_violations': self.n_violations,
            'wall_s': time.time() - self.t0,
        }
