"""pytest plugin: run the repository's own tests with the passive M2 contracts (and the NumPy-2 shim)
installed:   cd /repo && PYTHONPATH=/repo:/verif /venv/bin/python -m pytest -p vmon.pytest_plugin phylib
A contract that fires here is either too strict or a defect the tests do not assert (DESIGN 7.4)."""
import json
import os

import vmon.compat  # noqa: shim before phylib.io is imported by the test modules

_CTX = None


def pytest_configure(config):
    global _CTX
    if os.environ.get('PHYLIB_VERIF') != '1':
        return
    import phylib.io.model, phylib.io.traces, phylib.io.array, phylib.stats.ccg  # noqa
    from vmon.core import Ctx
    from vmon import monitors
    _CTX = Ctx('REPO-TESTS')
    monitors.install(_CTX, ('M2',))


def pytest_terminal_summary(terminalreporter):
    if _CTX is None:
        return
    tr = terminalreporter
    tr.write_line('vmon passive contracts during the repository tests: %s' % json.dumps(dict(_CTX.monitors), sort_keys=True))
    tr.write_line('vmon contract violations: %d' % _CTX.n_violations)
    for v in _CTX.violations[:10]:
        tr.write_line('  [%s] %s' % (v['kind'], v['msg'][:300]))
