"""Passive runtime monitors installed on the live phylib (DESIGN.md section 3.3).

M1  ReaderMonitor   shadow-array oracle on every BaseEphysReader read / derivation
M2  contracts       set-theoretic postconditions on the pure helpers, judged on *every* call made
                    anywhere (drivers, model, alf, ccg, traces)
M3  FsMonitor       directory content snapshots (oracle) + audit-hook log of write-capable events
                    (witness only)
M6  warning monitor RuntimeWarning & co raised from phylib frames (diagnostic)
M7  anchor reach    which lines of the anchored functions executed (sys.monitoring)

All monitors report into the shard's Ctx. They run in the calling thread; phylib's own code is
single-threaded (mtscomp's pool never runs a monitored function).
"""
import hashlib
import importlib
import os
import sys
import types
import weakref
from collections import Counter

import numpy as np

from .core import same, short, ulp_tol

_SMALL = 64


# ------------------------------------------------------------------------------------------
# rebinding machinery
# ------------------------------------------------------------------------------------------

def _phylib_modules():
    return [m for n, m in list(sys.modules.items())
            if (n == 'phylib' or n.startswith('phylib.')) and isinstance(m, types.ModuleType)]


def rebind(original, wrapper):
    """Replace every module-level reference to `original` (or bound methods of it) by wrapper."""
    n = 0
    for mod in _phylib_modules():
        for name, obj in list(vars(mod).items()):
            if obj is original:
                setattr(mod, name, wrapper)
                n += 1
    return n


# ------------------------------------------------------------------------------------------
# M2 contracts
# ------------------------------------------------------------------------------------------

class Contracts(object):
    def __init__(self, ctx):
        self.ctx = ctx
        self.installed = {}
        self.active = True

    def _wrap(self, modname, fname, post):
        mod = importlib.import_module(modname)
        orig = getattr(mod, fname)
        ctx = self.ctx
        me = self
        label = 'M2.' + fname

        def wrapper(*a, **k):
            res = orig(*a, **k)
            if not me.active:
                return res
            try:
                verdict = post(res, *a, **k)
            except Exception as e:  # the monitor must never break the program under test
                ctx.mon(label + '.monitor_error')
                ctx.note('monitor_error:%s:%s' % (fname, type(e).__name__))
                return res
            if verdict is None:
                ctx.mon(label + '.checked')
            elif verdict is False:
                ctx.mon(label + '.out_of_domain')
            else:
                ctx.mon(label + '.checked')
                ctx.violation('contract:' + fname,
                              {'function': modname + '.' + fname,
                               'args': [_arg(x) for x in a], 'kwargs': {kk: _arg(v) for kk, v in k.items()},
                               'returned': _arg(res)},
                              verdict, features={'function': fname}, monitor='M2')
            return res
        wrapper.__wrapped__ = orig
        wrapper.__name__ = getattr(orig, '__name__', fname)
        wrapper.__qualname__ = getattr(orig, '__qualname__', fname)
        wrapper.__doc__ = orig.__doc__
        n = rebind(orig, wrapper)
        self.installed[fname] = n

    def install(self):
        W = self._wrap
        W('phylib.io.array', '_unique', post_unique)
        W('phylib.io.array', '_index_of', post_index_of)
        W('phylib.io.array', '_spikes_in_clusters', post_spikes_in_clusters)
        W('phylib.io.array', '_spikes_per_cluster', post_spikes_per_cluster)
        W('phylib.io.array', '_flatten_per_cluster', post_flatten_per_cluster)
        W('phylib.io.array', 'grouped_mean', post_grouped_mean)
        W('phylib.io.model', 'from_sparse', post_from_sparse)
        W('phylib.io.traces', '_get_chunk_bounds', post_get_chunk_bounds)
        W('phylib.io.traces', '_find_chunks', post_find_chunks)


def _arg(x):
    if isinstance(x, np.ndarray) and x.size > 200:
        return {'__bigarray__': True, 'shape': list(x.shape), 'dtype': str(x.dtype),
                'head': x.ravel()[:20].tolist()}
    if isinstance(x, dict):
        return {str(k): _arg(v) for k, v in list(x.items())[:50]}
    if callable(x):
        return repr(x)
    return x


def _is_int_array(x):
    return isinstance(x, np.ndarray) and x.dtype.kind in 'iu'


# Postconditions: return None (held), False (outside the documented precondition: not judged) or a
# message (violated).

def post_unique(res, x):
    if x is None or len(x) == 0:
        return None if (isinstance(res, np.ndarray) and res.size == 0) else 'expected empty'
    xa = np.asarray(x)
    if xa.ndim != 1 or xa.dtype.kind not in 'iu':
        return False
    if xa.size <= _SMALL:
        exp = sorted(set(int(v) for v in xa.tolist() if v >= 0))
    else:
        exp = np.unique(xa[xa >= 0]).tolist()
    got = [int(v) for v in np.asarray(res).tolist()]
    return None if got == exp else '_unique returned %s, expected %s' % (short(got), short(exp))


def post_index_of(res, arr, lookup):
    lk = np.asarray(lookup)
    if lk.ndim != 1 or lk.dtype.kind not in 'iu' or lk.size == 0:
        return False
    if len(np.unique(lk)) != lk.size:
        return False
    a = np.asarray(arr)
    if a.dtype.kind not in 'iu':
        return False
    r = np.asarray(res)
    if r.shape != a.shape:
        return '_index_of result shape %s != input shape %s' % (r.shape, a.shape)
    inl = np.isin(a, lk)
    if not inl.any():
        return False
    ri = r[inl]
    if ri.dtype.kind not in 'iu':
        return 'non-integer result'
    if (ri < 0).any() or (ri >= lk.size).any():
        # negative result is only legal for value -1 meaning "keep -1" when -1 not in lookup
        return 'index out of range for a value that is in the lookup'
    if not np.array_equal(lk.astype(np.int64)[ri], a[inl].astype(np.int64)):
        return 'lookup[result] != arr on values that are in the lookup'
    return None


def post_spikes_in_clusters(res, spike_clusters, clusters):
    sc = np.asarray(spike_clusters)
    cl = np.asarray(clusters)
    if sc.ndim != 1:
        return False
    if sc.size <= _SMALL:
        cs = set(cl.tolist()) if cl.size else set()
        exp = [i for i, c in enumerate(sc.tolist()) if c in cs]
    else:
        exp = np.nonzero(np.isin(sc, cl))[0].tolist() if cl.size else []
    got = np.asarray(res).tolist()
    return None if got == exp else '_spikes_in_clusters returned %s, expected %s' % (
        short(got), short(exp))


def post_spikes_per_cluster(res, spike_clusters, spike_ids=None):
    if spike_clusters is None or not len(spike_clusters):
        return None if res == {} else 'expected {}'
    sc = np.asarray(spike_clusters)
    if sc.ndim != 1 or sc.dtype.kind not in 'iu':
        return False
    ids = np.arange(len(sc)) if spike_ids is None else np.asarray(spike_ids)
    if ids.shape != sc.shape:
        return False
    if not isinstance(res, dict):
        return 'not a dict'
    keys = sorted(int(k) for k in res.keys())
    exp_keys = sorted(set(int(v) for v in sc.tolist())) if sc.size <= _SMALL else \
        np.unique(sc).tolist()
    if keys != exp_keys:
        return 'keys %s != cluster ids present %s' % (short(keys), short(exp_keys))
    total = 0
    for k, v in res.items():
        exp = ids[sc == k]
        v = np.asarray(v)
        if v.shape != exp.shape or not np.array_equal(v, exp):
            return 'group of cluster %s is %s, expected %s' % (k, short(v), short(exp))
        total += len(v)
    if total != len(sc):
        return 'groups do not partition the spikes (%d != %d)' % (total, len(sc))
    return None


def post_flatten_per_cluster(res, per_cluster):
    if not isinstance(per_cluster, dict) or not per_cluster:
        return False
    vals = [np.asarray(v).ravel() for v in per_cluster.values()]
    exp = np.unique(np.concatenate(vals)) if vals else np.array([], dtype=np.int64)
    r = np.asarray(res)
    if r.dtype != np.int64:
        return 'dtype %s != int64' % r.dtype
    if r.tolist() != exp.astype(np.int64).tolist():
        return '_flatten_per_cluster returned %s, expected %s' % (short(r), short(exp))
    return None


def post_grouped_mean(res, arr, spike_clusters):
    arr = np.asarray(arr)
    sc = np.asarray(spike_clusters)
    if sc.ndim != 1 or sc.dtype.kind not in 'iu' or arr.dtype.kind not in 'iuf' or sc.size == 0:
        return False
    if (sc < 0).any():
        return False
    ids = np.unique(sc)
    r = np.asarray(res)
    if r.shape != (len(ids),) + arr.shape[1:]:
        return 'shape %s' % (r.shape,)
    for j, c in enumerate(ids):
        sel = arr[sc == c].astype(np.float64)
        exp = sel.sum(axis=0) / len(sel)
        # values given in single / half precision: the mean is judged to a few units of that precision relative to the
        # largest member (how the sum is accumulated is not part of the definition); double precision and integers: 1e-9
        atol = 1e-12
        if arr.dtype.kind == 'f' and arr.dtype.itemsize < 8 and sel.size and np.isfinite(sel).all():
            atol = 8 * float(np.finfo(arr.dtype).eps) * float(np.abs(sel).max())
        if not np.allclose(r[j], exp, rtol=1e-9, atol=atol, equal_nan=True):
            return 'mean of cluster %s is %s, expected %s' % (c, short(r[j]), short(exp))
    return None


def post_from_sparse(res, data, cols, channel_ids):
    data = np.asarray(data)
    cols = np.asarray(cols)
    ch = np.asarray(channel_ids)
    if data.ndim < 2 or cols.ndim != 2 or data.shape[:2] != cols.shape or ch.ndim != 1:
        return False
    if len(np.unique(ch)) != len(ch):
        return False
    if ch.size and ch.dtype.kind not in 'iu':
        return False
    if ch.size and (ch < 0).any():
        return False
    r = np.asarray(res)
    n, k = cols.shape
    exp_shape = (n, len(ch)) + data.shape[2:]
    if r.shape != exp_shape:
        return 'shape %s != expected %s' % (r.shape, exp_shape)
    if r.dtype != data.dtype:
        return 'dtype %s != %s' % (r.dtype, data.dtype)
    if n * k * max(1, len(ch)) > 200000:
        return False  # too big for the loop oracle; the drivers keep sizes below this
    ci = cols.astype(np.int64)
    exp = np.zeros(exp_shape, dtype=data.dtype)
    judged = np.ones((n, len(ch)), dtype=bool)
    for j, c in enumerate(ch.tolist()):
        hit = (ci == c)               # (n, k)
        cnt = hit.sum(axis=1)
        judged[cnt > 1, j] = False    # ambiguous duplicate inside a stored row: not judged
        rows = np.nonzero(cnt == 1)[0]
        if len(rows):
            kk = hit[rows].argmax(axis=1)
            exp[rows, j] = data[rows, kk]
    if not judged.any():
        return False
    a = r[judged]
    b = exp[judged]
    d = same(a, b, dtype=False)
    return None if d is None else 'from_sparse: ' + d


def post_get_chunk_bounds(res, arr_sizes, chunk_size):
    sizes = [int(s) for s in arr_sizes]
    if not sizes or min(sizes) < 1 or chunk_size < 1:
        return False
    b = [int(x) for x in res]
    total = sum(sizes)
    if b[0] != 0 or b[-1] != total:
        return 'bounds %s do not span [0, %d]' % (short(b), total)
    if any(y <= x for x, y in zip(b, b[1:])):
        return 'bounds %s not strictly increasing' % short(b)
    if any(y - x > chunk_size for x, y in zip(b, b[1:])):
        return 'gap larger than chunk size %d in %s' % (chunk_size, short(b))
    if not set(np.cumsum(sizes).tolist()) <= set(b):
        return 'a file boundary is missing from %s (sizes %s)' % (short(b), short(sizes))
    return None


def post_find_chunks(res, bounds, arr):
    b = np.asarray(bounds)
    if b.ndim != 1 or b.size < 2 or b.dtype.kind not in 'iu' or (np.diff(b.astype(np.int64)) <= 0).any():
        return False
    x = np.asarray(arr)
    if x.dtype.kind not in 'iu':
        return False
    r = np.asarray(res)
    if r.shape != x.shape:
        return 'shape'
    xi = x.astype(np.int64) if x.dtype != np.uint64 else x
    inr = (xi >= b[0]) & (xi < b[-1])
    if not inr.any():
        return False
    ri = r[inr]
    bi = b.astype(np.int64)
    if (ri < 0).any() or (ri >= b.size - 1).any():
        return 'chunk index out of range for an in-range sample'
    xx = xi[inr].astype(np.int64)
    if not ((bi[ri] <= xx) & (xx < bi[ri + 1])).all():
        return '_find_chunks: bounds[r] <= x < bounds[r+1] violated'
    return None


# ------------------------------------------------------------------------------------------
# M1 reader monitor
# ------------------------------------------------------------------------------------------

_BIN = {'add': lambda a, x: a + x, 'radd': lambda a, x: x + a, 'sub': lambda a, x: a - x,
        'rsub': lambda a, x: x - a, 'mul': lambda a, x: a * x, 'rmul': lambda a, x: x * a,
        'truediv': lambda a, x: a / x, 'rtruediv': lambda a, x: x / a,
        'floordiv': lambda a, x: a // x, 'rfloordiv': lambda a, x: x // a,
        'pow': lambda a, x: a ** x, 'rpow': lambda a, x: x ** a}
_UN = {'pos': lambda a: +a, 'neg': lambda a: -a}


def rows_in_domain(item, n, allow_list=True):
    """Is `item` a row index expression inside C01's claimed domain for a recording of n rows?"""
    if isinstance(item, (bool, np.bool_)):
        return False
    if isinstance(item, (int, np.integer)):
        return -n <= int(item) < n
    if isinstance(item, slice):
        if item.step not in (None, 1):
            return False
        for v in (item.start, item.stop):
            if v is not None and not (isinstance(v, (int, np.integer)) and -n <= int(v) <= n):
                return False
        return len(range(*item.indices(n))) >= 1
    if isinstance(item, (list, np.ndarray)) and allow_list:
        a = np.asarray(item)
        if a.ndim != 1 or a.size == 0 or a.dtype.kind not in 'iu':
            return False
        a = a.astype(np.int64)
        if a[0] < 0 or a[-1] >= n:
            return False
        return bool((np.diff(a) > 0).all())
    return False


def cols_in_domain(cols, nc):
    if isinstance(cols, slice):
        return True
    if isinstance(cols, (list, np.ndarray)):
        a = np.asarray(cols)
        return a.ndim == 1 and a.dtype.kind in 'iu' and a.size > 0 and \
            bool(((a >= -nc) & (a < nc)).all())
    return False


class ReaderMonitor(object):
    def __init__(self, ctx):
        self.ctx = ctx
        self.shadow = weakref.WeakKeyDictionary()
        self.active = True
        self.judge = True

    def register(self, reader, thunk, allow_list=True, label=''):
        self.shadow[reader] = (thunk, allow_list, label)

    def install(self):
        from phylib.io.traces import BaseEphysReader
        me = self
        ctx = self.ctx

        def make_bin(name, orig):
            def dunder(self, arg):
                out = orig(self, arg)
                ent = me.shadow.get(self) if me.active else None
                if ent is not None:
                    th, al, lb = ent
                    f = _BIN[name]
                    nt = (lambda th=th, f=f, arg=arg: f(th(), arg))
                    nt.parent = th
                    nt.apply = (lambda X, pa=getattr(th, 'apply', None), f=f, arg=arg: f(pa(X) if pa else X, arg))
                    me.shadow[out] = (nt, al, lb)
                    ctx.mon('M1.derived')
                return out
            return dunder

        def make_un(name, orig):
            def dunder(self):
                out = orig(self)
                ent = me.shadow.get(self) if me.active else None
                if ent is not None:
                    th, al, lb = ent
                    f = _UN[name]
                    nt = (lambda th=th, f=f: f(th()))
                    nt.parent = th
                    nt.apply = (lambda X, pa=getattr(th, 'apply', None), f=f: f(pa(X) if pa else X))
                    me.shadow[out] = (nt, al, lb)
                    ctx.mon('M1.derived')
                return out
            return dunder

        for name in _BIN:
            orig = getattr(BaseEphysReader, '__%s__' % name)
            setattr(BaseEphysReader, '__%s__' % name, make_bin(name, orig))
        for name in _UN:
            orig = getattr(BaseEphysReader, '__%s__' % name)
            setattr(BaseEphysReader, '__%s__' % name, make_un(name, orig))

        orig_getitem = BaseEphysReader.__getitem__

        def getitem(self, item):
            ent = me.shadow.get(self) if me.active else None
            if ent is None:
                ctx.mon('M1.unregistered_read')
                return orig_getitem(self, item)
            th, al, lb = ent
            out = orig_getitem(self, item)   # an exception propagates to the caller unchanged
            try:
                me._check(self, item, out, th, al, lb)
            except Exception as e:
                ctx.mon('M1.monitor_error')
                ctx.note('monitor_error:M1:%s' % type(e).__name__)
            return out
        BaseEphysReader.__getitem__ = getitem
        self._orig_getitem = orig_getitem

    def _check(self, reader, item, out, th, al, lb):
        ctx = self.ctx
        rows, cols = item, None
        if isinstance(item, tuple):
            if len(item) == 1:
                rows = item[0]
            elif len(item) == 2:
                rows, cols = item
            else:
                return
        from phylib.io.traces import BaseEphysReader
        if cols is not None and isinstance(rows, slice) and rows == slice(None, None, None):
            if isinstance(out, BaseEphysReader):
                nt = (lambda th=th, cols=cols: th()[:, cols])
                nt.parent = th
                nt.apply = (lambda X, pa=getattr(th, 'apply', None), cols=cols: (pa(X) if pa else X)[:, cols])
                self.shadow[out] = (nt, al, lb)
                ctx.mon('M1.derived')
            else:
                ctx.violation('reader_colsel_not_reader', {'item': item},
                              'reader[:, cols] returned %s, not a reader' % type(out).__name__,
                              monitor='M1')
            return
        if not self.judge:
            return
        with np.errstate(all='ignore'):
            try:
                A = th()
            except Exception:
                ctx.mon('M1.shadow_unevaluable')
                return
        n = A.shape[0]
        if not rows_in_domain(rows, n, allow_list=al):
            ctx.mon('M1.out_of_domain')
            return
        if cols is not None and not cols_in_domain(cols, A.shape[1]):
            ctx.mon('M1.out_of_domain')
            return
        if isinstance(rows, (int, np.integer)):
            exp = A[int(rows)][np.newaxis, :]
        elif isinstance(rows, slice):
            exp = A[rows]
        else:
            exp = A[np.asarray(rows, dtype=np.int64)]
        if cols is not None:
            exp = exp[:, cols]
        ctx.mon('M1.checked')
        d = same(out, exp, rtol=ulp_tol(exp))
        if d is not None:
            # a step of the expression may have been computed in a coarser floating type than the final result
            # (float32 pow, then + np.int64): judge to a few units of the coarsest precision met on the way
            tol, t_ = ulp_tol(exp), th
            with np.errstate(all='ignore'):
                while getattr(t_, 'parent', None) is not None:
                    t_ = t_.parent
                    try:
                        tol = max(tol, ulp_tol(t_()))
                    except Exception:
                        break
            if tol > ulp_tol(exp):
                d = same(out, exp, rtol=tol)
            if d is not None and getattr(th, 'apply', None) is not None:
                # NumPy's result for one expression can differ in the last unit between a whole array and a few of its rows
                # (vectorised / scalar inner loops); a floor division later in the expression turns that into a whole step.
                # Eager evaluation of the expression on the selected rows of the recording is eager evaluation too.
                try:
                    root = th
                    while getattr(root, 'parent', None) is not None:
                        root = root.parent
                    base = root()
                    sel = base[[int(rows)]] if isinstance(rows, (int, np.integer)) else (base[rows] if isinstance(rows, slice) else base[np.asarray(rows, dtype=np.int64)])
                    with np.errstate(all='ignore'):
                        exp2 = th.apply(sel)
                    if cols is not None:
                        exp2 = exp2[:, cols]
                    if same(out, exp2, rtol=tol) is None:
                        d = None
                        ctx.mon('M1.matched_rowwise_evaluation')
                except Exception:
                    pass
        if d is not None:
            ctx.violation('reader_read_mismatch',
                          {'label': lb, 'item': item, 'reader_shape': list(A.shape),
                           'observed': _arg(np.asarray(out)), 'expected': _arg(exp)},
                          'M1: reader[%s] differs from NumPy indexing of the ground truth: %s'
                          % (short(item, 80), d), features={'via': 'M1'}, monitor='M1')


# ------------------------------------------------------------------------------------------
# M3 file-system monitor
# ------------------------------------------------------------------------------------------

def snapshot(root):
    """name -> (size, sha256) for every regular file under root (recursive)."""
    out = {}
    root = str(root)
    for dp, dn, fn in os.walk(root):
        for f in fn:
            p = os.path.join(dp, f)
            rel = os.path.relpath(p, root)
            try:
                with open(p, 'rb') as fh:
                    data = fh.read()
                out[rel] = (len(data), hashlib.sha256(data).hexdigest())
            except OSError:
                out[rel] = (-1, 'unreadable')
    return out


def snapshot_diff(before, after):
    created = sorted(set(after) - set(before))
    deleted = sorted(set(before) - set(after))
    changed = sorted(k for k in before if k in after and before[k] != after[k])
    return created, deleted, changed


class FsMonitor(object):
    """Audit-hook witness log: write-capable events under watched roots. Never a verdict."""
    _installed = False
    _instance = None

    def __init__(self, ctx):
        self.ctx = ctx
        self.roots = []
        self.log = []
        self.enabled = False

    def install(self):
        if FsMonitor._installed:
            FsMonitor._instance = self
            return
        FsMonitor._installed = True
        FsMonitor._instance = self

        def hook(event, args):
            me = FsMonitor._instance
            if me is None or not me.enabled:
                return
            try:
                if event == 'open':
                    path, mode = args[0], args[1]
                    if not isinstance(path, (str, bytes)) or mode is None:
                        return
                    if not any(c in str(mode) for c in 'wa+x'):
                        return
                    me._rec(event, path, mode)
                elif event in ('os.remove', 'os.rename', 'os.truncate', 'os.mkdir', 'os.rmdir',
                               'shutil.copyfile', 'shutil.move', 'os.unlink'):
                    me._rec(event, args[0], args[1] if len(args) > 1 else None)
            except Exception:
                pass
        sys.addaudithook(hook)

    def _rec(self, event, path, extra):
        p = os.fsdecode(path) if isinstance(path, (bytes, str)) else str(path)
        if not any(p.startswith(r) for r in self.roots):
            if not (isinstance(extra, (str, bytes)) and
                    any(os.fsdecode(extra).startswith(r) for r in self.roots)):
                return
        f = sys._getframe(2)
        site = None
        while f is not None:
            fn = f.f_code.co_filename
            if '/phylib/' in fn:
                site = '%s:%s:%d' % (os.path.basename(fn), f.f_code.co_name, f.f_lineno)
                break
            f = f.f_back
        self.log.append((event, p, str(extra), site))
        self.ctx.mon('M3.audit_events')

    def watch(self, *roots):
        self.roots = [str(r) for r in roots]
        self.log = []
        self.enabled = True

    def stop(self):
        self.enabled = False
        return list(self.log)

    def writers_of(self, relname):
        return [e for e in self.log if e[1].endswith(relname) or e[2].endswith(relname)]


# ------------------------------------------------------------------------------------------
# M6 + M7 + container
# ------------------------------------------------------------------------------------------

class Monitors(object):
    def __init__(self, ctx):
        self.ctx = ctx
        self.contracts = None
        self.readers = None
        self.fs = None
        self.warn = Counter()
        self.anchor_codes = {}
        self.anchor_missing = []
        self.lines_hit = {}
        self._tool = None

    # M6
    def showwarning(self, message, category, filename, lineno, file=None, line=None):
        if '/phylib/' in filename:
            key = '%s|%s:%d|%s' % (category.__name__, os.path.basename(filename), lineno,
                                   str(message)[:80])
            self.warn[key] += 1
            self.ctx.mon('M6.phylib_warnings')

    def warning_report(self):
        return dict(self.warn.most_common(25))

    # M7
    def resolve_anchors(self, anchors):
        for spec in anchors:
            modname, qual = spec.split(':')
            try:
                obj = importlib.import_module(modname)
                for part in qual.split('.'):
                    obj = obj.__dict__[part] if isinstance(obj, type) else getattr(obj, part)
                if isinstance(obj, property):
                    obj = obj.fget
                if isinstance(obj, (staticmethod, classmethod)):
                    obj = obj.__func__
                obj = getattr(obj, '__wrapped__', obj)
                code = obj.__code__
            except Exception:
                self.anchor_missing.append(spec)
                continue
            lines = set(l for (_, _, l) in code.co_lines() if l is not None)
            lines.discard(code.co_firstlineno)
            self.anchor_codes[code] = (spec, lines)
            self.lines_hit[spec] = set()

    def start_anchor_trace(self):
        mon = getattr(sys, 'monitoring', None)
        if mon is None or not self.anchor_codes:
            return
        tool = 4
        try:
            mon.use_tool_id(tool, 'vmon-anchors')
        except ValueError:
            return
        self._tool = tool
        codes = self.anchor_codes
        hit = self.lines_hit

        def on_line(code, line):
            ent = codes.get(code)
            if ent is not None:
                hit[ent[0]].add(line)
            return mon.DISABLE
        mon.register_callback(tool, mon.events.LINE, on_line)
        for code in codes:
            mon.set_local_events(tool, code, mon.events.LINE)

    def finish(self):
        mon = getattr(sys, 'monitoring', None)
        if self._tool is not None:
            for code in self.anchor_codes:
                mon.set_local_events(self._tool, code, 0)
            mon.register_callback(self._tool, mon.events.LINE, None)
            mon.free_tool_id(self._tool)
            self._tool = None

    def anchor_report(self):
        rep = {}
        for code, (spec, lines) in self.anchor_codes.items():
            rep[spec] = {'hit': sorted(self.lines_hit[spec] & lines), 'total': len(lines)}
        for spec in self.anchor_missing:
            rep[spec] = 'anchor_missing'
        return rep


CURRENT = None


def install(ctx, names=('M2', 'M6'), anchors=()):
    """Install the requested monitors; returns the Monitors container (also vmon.monitors.CURRENT)."""
    global CURRENT
    m = Monitors(ctx)
    m.resolve_anchors(anchors)      # before wrapping, so that the original code objects are traced
    if 'M2' in names:
        m.contracts = Contracts(ctx)
        m.contracts.install()
    if 'M1' in names:
        m.readers = ReaderMonitor(ctx)
        m.readers.install()
    if 'M3' in names:
        m.fs = FsMonitor(ctx)
        m.fs.install()
    m.start_anchor_trace()
    CURRENT = m
    return m
