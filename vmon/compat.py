"""NumPy-2 import shim (DESIGN.md section 2).

`phylib/io/traces.py` does `from numpy.lib.format import _check_version, _write_array_header`.
NumPy >= 2 keeps both functions, unchanged, in `numpy.lib._format_impl` but no longer re-exports
them. We add the two attributes *iff they are missing* so that `import phylib.io` works. This is a
no-op on NumPy 1.x and on a tree whose import has been repaired.
"""
import numpy.lib.format as _fmt

APPLIED = []


def apply():
    try:
        import numpy.lib._format_impl as impl
    except Exception:  # NumPy 1.x
        return APPLIED
    for name in ('_check_version', '_write_array_header'):
        if not hasattr(_fmt, name) and hasattr(impl, name):
            setattr(_fmt, name, getattr(impl, name))
            APPLIED.append(name)
    return APPLIED


apply()
