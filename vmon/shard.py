"""Subprocess entry point: run one shard (or one replay case) of a property's workload against the
real phylib imported from the tree under test."""
import faulthandler
import importlib
import json
import os
import sys
import traceback
import warnings

import numpy as np


def _import_phylib():
    import vmon.compat as compat  # noqa: the NumPy-2 shim must precede phylib.io
    import phylib
    root = os.environ.get('PHYLIB_REPO', '/repo')
    real = os.path.realpath(os.path.dirname(os.path.dirname(phylib.__file__)))
    if real != os.path.realpath(root):
        raise RuntimeError('phylib imported from %s, expected under %s' % (phylib.__file__, root))
    import phylib.io.traces, phylib.io.model, phylib.io.array, phylib.io.alf  # noqa
    import phylib.io.merge, phylib.io.datasets, phylib.stats.ccg, phylib.utils.event  # noqa
    import phylib.utils._misc  # noqa
    return compat.APPLIED


def main(argv):
    faulthandler.enable()
    prop, descfile, outfile = argv[:3]
    with open(descfile) as f:
        job = json.load(f)
    from vmon.core import Ctx, dec
    out = {'harness_error': None, 'import_error': None}
    ctx = Ctx(prop, tier=job.get('tier', 'quick'), seed=job.get('seed', 0),
              replay=job.get('mode') == 'replay')
    try:
        import logging
        logging.disable(logging.CRITICAL)
        shim = _import_phylib()
        out['shim'] = shim
    except Exception:
        out['import_error'] = traceback.format_exc()
        with open(outfile, 'w') as f:
            json.dump(out, f)
        return 0
    try:
        mod = importlib.import_module('props.' + prop.lower())
        from vmon import monitors
        mon = monitors.install(ctx, getattr(mod, 'MONITORS', ('M2', 'M6')),
                               anchors=getattr(mod, 'ANCHORS', ()))
        with warnings.catch_warnings():
            warnings.simplefilter('always')
            warnings.showwarning = mon.showwarning
            if job.get('mode') == 'replay':
                mod.run_case(dec(job['case']), ctx)
            else:
                mod.run_shard(job['desc'], ctx)
        mon.finish()
        out['anchors'] = mon.anchor_report()
        out['warnings'] = mon.warning_report()
    except Exception:
        out['harness_error'] = traceback.format_exc()
    res = ctx.result()
    nt = np.array(res.pop('nontrivial'), dtype=np.uint64)
    np.save(outfile + '.nt.npy', nt)
    out.update(res)
    with open(outfile, 'w') as f:
        json.dump(out, f)
    return 0


if __name__ == '__main__':
    sys.exit(main(sys.argv[1:]))
