"""Known findings: mechanism classifiers (DESIGN.md section 3.4).

KNOWN_FINDINGS.txt (committed, never written at run time) has lines

    open:  property=<id> key=<classifier-key> <what fails>
    fixed: property=<id> <commit> <what failed>

Only `open:` lines suppress anything, and only for witnesses matched by the classifier registered
under `key` below. Classifiers look at the *mechanism* (violation kind + structural features
computed by the oracle), never at seeds, hashes or random values.
"""
import os

from .core import VERIF_ROOT

PATH = os.environ.get('VMON_KNOWN_FILE') or os.path.join(VERIF_ROOT, 'KNOWN_FINDINGS.txt')


def _feat(v, name, default=None):
    return (v.get('features') or {}).get(name, default)


# key -> predicate(violation dict) ; filled as findings get recorded
CLASSIFIERS = {}


def classifier(key):
    def deco(f):
        CLASSIFIERS[key] = f
        return f
    return deco


@classifier('C14-uncurated-spikeless-depth')
def _c14_uncurated_spikeless(v):
    return v['property'] == 'C14' and v['kind'] == 'cluster_value_not_nan_for_spikeless_id' and \
        _feat(v, 'curated') is False


def load_open():
    """Return list of (property, key, text) for `open:` lines."""
    out = []
    if not os.path.exists(PATH):
        return out
    with open(PATH) as f:
        for line in f:
            line = line.strip()
            if not line or line.startswith('#'):
                continue
            if line.startswith('open:'):
                rest = line[len('open:'):].strip()
                parts = rest.split(None, 2)
                prop = parts[0].split('=', 1)[1]
                key = parts[1].split('=', 1)[1]
                text = parts[2] if len(parts) > 2 else ''
                out.append((prop, key, text))
    return out


def match(violation, open_findings):
    """Return (key, text) of the open finding that explains this violation, else None."""
    for prop, key, text in open_findings:
        if prop != violation['property']:
            continue
        f = CLASSIFIERS.get(key)
        if f is None:
            continue
        try:
            if f(violation):
                return key, text
        except Exception:
            continue
    return None
