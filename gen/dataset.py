"""DatasetSpec: the harness's own ground truth of a generated KiloSort/phy (or ALF-named) dataset
(DESIGN.md M8). It holds every array in canonical form plus the layout choices, writes the directory
and params.py, and is the independent reader used by all dataset oracles (never re-read through
phylib). No phylib import.
"""
import os
from pathlib import Path

import numpy as np

KS2ALF = {
    'spike_times.npy': None,  # special: ALF stores seconds (+ optional samples)
    'amplitudes.npy': 'spikes.amps.npy',
    'spike_templates.npy': 'spikes.templates.npy',
    'spike_clusters.npy': 'spikes.clusters.npy',
    'channel_map.npy': 'channels.rawInd.npy',
    'channel_positions.npy': 'channels.localCoordinates.npy',
    'channel_probe.npy': 'channels.probes.npy',
    'channel_shanks.npy': 'channels.shanks.npy',
    'templates.npy': 'templates.waveforms.npy',
    'template_ind.npy': 'templates.waveformsChannels.npy',
}


class DatasetSpec(object):
    def __init__(self):
        self.names = 'ks'            # 'ks' | 'alf'
        self.vec2d = False           # store 1-D vectors as (n, 1) like Matlab exports
        self.sample_rate = 100.
        self.n_channels_dat = 0
        self.channel_map = None
        self.positions = None
        self.shanks = None
        self.probes = None
        self.spike_samples = None
        self.alf_store_samples = True   # ALF names: also write spikes.samples.npy
        self.alf_times_custom = None    # ALF names: stored seconds that are not samples / rate (clock-synchronised)
        self.spike_templates = None
        self.spike_clusters = None
        self.amplitudes = None
        self.templates = None
        self.template_ind = None
        self.wm = None
        self.wmi_file = None
        self.similar_templates = None
        self.pc_features = None        # file layout (n_rows, n_pcs, n_loc)
        self.pc_feature_ind = None
        self.pc_feature_spike_ids = None
        self.template_features = None
        self.template_feature_ind = None
        self.template_feature_spike_ids = None
        self.raw = None                # (n_samples, n_channels_dat)
        self.raw_parts = None          # list of part lengths
        self.raw_ext = '.dat'
        self.raw_offset = 0
        self.spike_attrs = {}          # name -> array (any length)
        self.spike_times_reordered = None
        self.tsv = {}                  # filename -> text
        self.extra_files = {}          # filename -> bytes (e.g. temp_wh.dat)
        self.dtype_times = np.uint64
        self.dtype_ids = np.int32
        self.dtype_map = np.int32
        self.hp_filtered = False
        self.notes = {}

    # -- sizes -------------------------------------------------------------------------
    @property
    def n_spikes(self):
        return len(self.spike_samples)

    @property
    def n_templates(self):
        return self.templates.shape[0]

    @property
    def n_channels(self):
        return len(self.channel_map)

    @property
    def nsw(self):
        return self.templates.shape[1]

    @property
    def clusters(self):
        """Effective cluster assignment (the documented default when the file is absent)."""
        return (self.spike_clusters if self.spike_clusters is not None
                else self.spike_templates).astype(np.int32)

    @property
    def curated(self):
        return not np.array_equal(self.clusters.astype(np.int64), self.spike_templates.astype(np.int64))

    @property
    def wm_eff(self):
        return self.wm if self.wm is not None else np.eye(self.n_channels)

    @property
    def wmi_eff(self):
        if self.wmi_file is not None:
            return self.wmi_file
        return np.linalg.inv(self.wm_eff)

    @property
    def spike_times(self):
        return self.spike_samples.astype(np.float64) / self.sample_rate if self.names == 'ks' \
            else self.alf_times

    @property
    def alf_times(self):
        if self.alf_times_custom is not None:
            return self.alf_times_custom
        return self.spike_samples.astype(np.float64) / self.sample_rate

    def traces_truth(self):
        return None if self.raw is None else self.raw[:, self.channel_map.astype(np.int64)]

    # -- writing -------------------------------------------------------------------------
    def _vec(self, a):
        a = np.asarray(a)
        if self.vec2d == 'row' and a.ndim == 1:
            return a.reshape((1, -1))           # MATLAB row vectors / np.atleast_2d
        return a.reshape((-1, 1)) if (self.vec2d and a.ndim == 1) else a

    def _name(self, ks):
        return KS2ALF.get(ks) or ks if self.names == 'alf' else ks

    def files(self):
        """name -> array to be np.save'd (not including raw/tsv/params)."""
        out = {}
        if self.names == 'ks':
            out['spike_times.npy'] = self._vec(self.spike_samples.astype(self.dtype_times))
        else:
            out['spikes.times.npy'] = self._vec(self.alf_times)
            if self.alf_store_samples:
                out['spikes.samples.npy' if not self.notes.get('alf_samples_suffix') else 'spikes.samples.%s.npy' % self.notes['alf_samples_suffix']] = \
                    self._vec(self.spike_samples.astype(self.dtype_times))
        out[self._name('spike_templates.npy')] = self._vec(self.spike_templates.astype(self.dtype_ids))
        if self.spike_clusters is not None:
            out[self._name('spike_clusters.npy')] = self._vec(self.spike_clusters.astype(self.dtype_ids))
        if self.amplitudes is not None:
            out[self._name('amplitudes.npy')] = self._vec(self.amplitudes)
        out[self._name('channel_map.npy')] = self._vec(self.channel_map.astype(self.dtype_map))
        out[self._name('channel_positions.npy')] = self.positions
        if self.shanks is not None:
            out[self._name('channel_shanks.npy')] = self._vec(self.shanks)
        if self.probes is not None:
            out[self._name('channel_probe.npy')] = self._vec(self.probes)
        out[self._name('templates.npy')] = self.templates
        if self.template_ind is not None:
            out[self._name('template_ind.npy')] = self.template_ind
        if self.wm is not None:
            out['whitening_mat.npy'] = self.wm
        if self.wmi_file is not None:
            out['whitening_mat_inv.npy'] = self.wmi_file
        if self.similar_templates is not None:
            out['similar_templates.npy'] = self.similar_templates
        if self.pc_features is not None:
            out['pc_features.npy'] = self.pc_features
            if self.pc_feature_ind is not None:
                out['pc_feature_ind.npy'] = self.pc_feature_ind
            if self.pc_feature_spike_ids is not None:
                out['pc_feature_spike_ids.npy'] = self._vec(self.pc_feature_spike_ids)
        if self.template_features is not None:
            out['template_features.npy'] = self.template_features
            if self.template_feature_ind is not None:
                out['template_feature_ind.npy'] = self.template_feature_ind
            if self.template_feature_spike_ids is not None:
                out['template_feature_spike_ids.npy'] = self._vec(self.template_feature_spike_ids)
        if self.spike_times_reordered is not None:
            out['spike_times_reordered.npy'] = self._vec(self.spike_times_reordered)
        for n, a in self.spike_attrs.items():
            out['spike_%s.npy' % n] = self._vec(a)
        return out

    def write(self, d):
        d = Path(d)
        d.mkdir(parents=True, exist_ok=True)
        for name, arr in self.files().items():
            if self.notes.get('fortran') == 'all' and getattr(arr, 'ndim', 1) >= 2:
                arr = np.asfortranarray(arr)        # every multi-dimensional file column-major (templates, features too)
            elif self.notes.get('fortran') and getattr(arr, 'ndim', 1) == 2 and not name.startswith('pc_') and 'feature' not in name:
                arr = np.asfortranarray(arr)        # column-major .npy files, as MATLAB exporters write them
            np.save(d / name, arr)
            if self.notes.get('npy_version') and (name.startswith('spike_') or name in ('amplitudes.npy', 'channel_positions.npy')):
                # .npy format 2.0 / 3.0 (what np.save itself picks for long headers): as good as 1.0
                with open(d / name, 'wb') as f_:
                    np.lib.format.write_array(f_, np.asanyarray(arr), version=tuple(self.notes['npy_version']))
            if self.notes.get('npy_symlink') and name in ('spike_templates.npy', 'spike_times.npy', 'templates.npy', 'amplitudes.npy'):
                # the array lives in another folder; the dataset folder only links to it
                import os
                (d / '_store').mkdir(exist_ok=True)
                os.replace(d / name, d / '_store' / name)
                os.symlink(d / '_store' / name, d / name)
        dat_paths = []
        if self.raw is not None:
            parts = self.raw_parts or [self.raw.shape[0]]
            i = 0
            if self.raw_ext == '.npy':
                np.save(d / 'raw.npy', self.raw)
                dat_paths = ['raw.npy']
            else:
                for k, p in enumerate(parts):
                    fn = 'raw_t%d%s' % (9 + k, self.raw_ext)   # t9, t10, t11: not in lexicographic order
                    if self.notes.get('raw_same_name') and len(parts) > 1 and not self.notes.get('raw_symlink'):
                        # Open Ephys style: run<k>/continuous.dat - every part has the same base name
                        (d / ('run%d' % (9 + k))).mkdir(exist_ok=True)
                        fn = 'run%d/continuous%s' % (9 + k, self.raw_ext)
                    with open(d / fn, 'wb') as f:
                        f.write(b'\x5a' * self.raw_offset)
                        f.write(np.ascontiguousarray(self.raw[i:i + p]).tobytes())
                        if self.notes.get('raw_stray_byte') and k == len(parts) - 1 and self.raw.dtype.itemsize > 1:
                            f.write(b'\x7f' * int(self.notes['raw_stray_byte']))            # the file was cut in the middle of a sample / of a row
                    if self.notes.get('raw_symlink'):
                        # the raw data lives elsewhere; the dataset folder only links to it
                        import os
                        (d / '_store').mkdir(exist_ok=True)
                        os.replace(d / fn, d / '_store' / fn)
                        os.symlink(d / '_store' / fn, d / fn)
                    i += p
                    dat_paths.append(fn)
        if self.notes.get('ks2_templates_ind') and self.template_ind is None and self.names == 'ks':
            # Kilosort 2 ships dense templates plus a trivial column table under this (other) name; phylib ignores it
            np.save(d / 'templates_ind.npy', np.tile(np.arange(self.templates.shape[2]), (self.templates.shape[0], 1)).astype(np.float64))
        for fn, text in self.tsv.items():
            with open(d / fn, 'w', newline='', encoding='utf-8') as f:
                f.write(text)
        for fn, data in self.extra_files.items():
            with open(d / fn, 'wb') as f:
                f.write(data)
        raw_dtype = np.dtype(self.raw.dtype if self.raw is not None else np.int16)
        with open(d / 'params.py', 'w') as f:
            if self.notes.get('dat_path_literal') is not None and not dat_paths:
                # the sorter's raw file name as written into every folder (the file itself need not be there)
                f.write('dat_path = %r\n' % (self.notes['dat_path_literal'],))
            elif len(dat_paths) == 1 and self.notes.get('dat_path_str'):
                f.write('dat_path = %r\n' % dat_paths[0])
            else:
                f.write('dat_path = %r\n' % dat_paths)
            # (parameter names are case-insensitive; some exporters write them in capitals, with spaces before the '=')
            nm = (lambda k_: k_.upper() + '  ') if self.notes.get('params_style') == 'upper' else (lambda k_: k_)
            f.write('%s = %d\n' % (nm('n_channels_dat'), self.n_channels_dat))
            f.write('dtype = %r\n' % raw_dtype.name)
            f.write('%s = %d\n' % (nm('offset'), self.raw_offset))
            f.write('%s = %r\n' % (nm('sample_rate'), float(self.sample_rate)))
            f.write('hp_filtered = %r\n' % bool(self.hp_filtered))
            if self.notes.get('template_scaling'):
                f.write('template_scaling = %r\n' % float(self.notes['template_scaling']))
            for key in ('amplitude_threshold', 'n_closest_channels'):     # rarely set model-level options
                if self.notes.get(key) is not None:
                    f.write('%s = %r\n' % (key, self.notes[key]))
        return d / 'params.py'

    def describe(self):
        """Compact JSON-able description (for samples / witnesses)."""
        return {
            'names': self.names, 'vec2d': self.vec2d, 'ns': int(self.n_spikes),
            'nt': int(self.n_templates), 'nc': int(self.n_channels), 'ncdat': int(self.n_channels_dat),
            'nsw': int(self.nsw), 'rate': self.sample_rate,
            'clusters_file': self.spike_clusters is not None, 'curated': bool(self.curated),
            'amps': self.amplitudes is not None, 'wm': self.wm is not None,
            'shanks': self.shanks is not None, 'probes': self.probes is not None,
            'sparse_templates': self.template_ind is not None,
            'features': self.pc_features is not None,
            'feat_ind': self.pc_feature_ind is not None,
            'feat_rows': self.pc_feature_spike_ids is not None,
            'tfeatures': self.template_features is not None,
            'similar': self.similar_templates is not None,
            'raw': None if self.raw is None else [list(self.raw.shape), str(self.raw.dtype),
                                                   self.raw_parts, self.raw_ext, self.raw_offset],
            'dtypes': [np.dtype(self.dtype_times).name, np.dtype(self.dtype_ids).name,
                       np.dtype(self.dtype_map).name],
            'attrs': sorted(self.spike_attrs), 'tsv': sorted(self.tsv),
            'notes': self.notes,
        }


# ------------------------------------------------------------------------------------------
# Random generation
# ------------------------------------------------------------------------------------------

def geometry(rng, nc, n_shanks=1, jitter=True, ties=False, interleave=False):
    """Distinct 2-D positions; shank s is translated along x (far apart), or, with interleave, the
    shanks are interleaved sites of one dense grid (neighbours belong to different shanks)."""
    per = -(-nc // n_shanks)
    pos = np.zeros((nc, 2))
    shanks = np.zeros(nc, dtype=np.int32)
    for c in range(nc):
        if interleave:
            pos[c] = [(c % 2) * 16., (c // 2) * 20.]
            shanks[c] = c % n_shanks
            continue
        s, k = divmod(c, per)
        pos[c] = [s * 200. + (k % 2) * 16., (k // 2) * 20.]
        shanks[c] = s
    if jitter and not ties:
        pos += rng.uniform(-3, 3, size=pos.shape)
    perm = rng.permutation(nc)
    return pos[perm], shanks[perm]


def random_spec(rng, **o):
    """Build a random, well-formed dataset. Options (all optional):
    nc, ncdat_extra, nt, nsw, ns, names, vec2d, clusters ('absent'|'same'|'curated'), amps, wm,
    wmi_file, shanks(n), probes, sparse_templates, features ('none'|'dense'|'sparse'|'sparse_rows'),
    tfeatures, similar, raw ('none'|dtype str), raw_parts(k), raw_ext, raw_offset, rate,
    dtype_times, dtype_ids, dtype_map, spikeless ('none'|'first'|'middle'|'last'), nanvals, ties,
    n_samples
    """
    s = DatasetSpec()
    g = lambda k, d: o.get(k, d)  # noqa
    nc = g('nc', int(rng.integers(3, 9)))
    nt = g('nt', int(rng.integers(2, 6)))
    nsw = g('nsw', int(rng.integers(3, 8)))
    ns = max(o['ns'] if 'ns' in o else int(rng.integers(max(6, nt + 2), max(40, nt + 10))), nt + 1)
    s.names = g('names', 'ks')
    s.vec2d = g('vec2d', False)
    s.sample_rate = float(g('rate', [1., 100., 30000.][int(rng.integers(0, 3))]))
    extra = g('ncdat_extra', int(rng.integers(0, 3)))
    s.n_channels_dat = nc + extra
    s.channel_map = rng.permutation(s.n_channels_dat)[:nc].astype(np.int64)
    if not g('permute_map', True):
        s.channel_map = np.arange(nc, dtype=np.int64)
    nsh = g('shanks', 0)
    pos, sh = geometry(rng, nc, max(1, nsh), ties=g('ties', False), interleave=g('interleave', False))
    if g('pos_scale', 0):
        pos = pos * g('pos_scale', 0)            # coordinates in other units (metres instead of micrometres)
    if g('pos_offset', 0):
        pos = pos + g('pos_offset', 0)           # absolute coordinates far from the origin
    s.positions = pos.astype(g('dtype_pos', 'float64'))
    s.shanks = sh if nsh else None
    if g('probes', False):
        s.probes = np.sort(rng.integers(0, 2, size=nc)).astype(np.int32)
    s.dtype_times = np.dtype(g('dtype_times', 'uint64'))
    s.dtype_ids = np.dtype(g('dtype_ids', 'int32'))
    s.dtype_map = np.dtype(g('dtype_map', 'int32'))

    # templates: one dominant channel each, smooth random otherwise
    T = rng.normal(0, 1, size=(nt, nsw, nc)).astype(np.float32)
    for t in range(nt):
        gains = rng.uniform(0.05, 0.6, size=nc)
        pk = int(rng.integers(0, nc))
        gains[pk] = 2.0 + rng.uniform(0, 1)
        T[t] *= gains[None, :].astype(np.float32)
        # make sure the peak channel has a clear min and max at distinct samples
        T[t, int(rng.integers(0, nsw)), pk] += np.float32(3.0)
    if g('exact_amps', False) and nc >= 3:
        # channels whose amplitude is exactly half the peak's / exactly zero (threshold boundaries)
        for t in range(nt):
            pk = int(np.argmax(T[t].max(axis=0) - T[t].min(axis=0)))
            others = [c for c in range(nc) if c != pk]
            T[t][:, others[0]] = T[t][:, pk] * np.float32(0.5)
            T[t][:, others[1]] = 0
    if g('flat_template', False):
        T[int(rng.integers(0, nt))] = 0            # a template without any signal (it may still own spikes)
    T = T.astype(g('dtype_templates', 'float32'))
    if T.dtype == np.float64:
        T = T * (1 + 2.0 ** -40)          # genuinely double-precision values (not representable in float32)
    s.templates = T
    if g('sparse_templates', False):
        nloc = min(nc, g('tnloc', int(rng.integers(2, 5))))
        if g('sparse_identity', False):
            nloc = nc
        Ts = np.zeros((nt, nsw, nloc), dtype=T.dtype)
        ind = np.zeros((nt, nloc), dtype=np.int64)
        for t in range(nt):
            ptp = T[t].max(axis=0) - T[t].min(axis=0)
            pk = int(np.argmax(ptp))
            others = [c for c in rng.permutation(nc).tolist() if c != pk][:nloc - 1]
            chans = [pk] + others
            if g('sparse_identity', False):
                chans = list(range(nc))      # KS2 style: every channel stored, trivial column table
            ind[t] = chans
            Ts[t] = T[t][:, chans]
            if nloc >= 3 and rng.random() < 0.5 and not g('sparse_identity', False):     # an unused trailing column
                ind[t, -1] = -1
                Ts[t, :, -1] = 0
            mp = g('mid_pad', 0.0)
            if mp and nloc >= 3 and rng.random() < mp:
                # an unused (-1) column in the MIDDLE of the row, with left-over data in it (exporters that reuse buffers)
                j = int(rng.integers(1, nloc - 1))
                ind[t, j] = -1
            if nloc >= 3 and rng.random() < 0.3:     # a signal-free stored channel
                Ts[t, :, 1 if chans[1] != pk else 2] = 0
        s.templates = Ts
        s.template_ind = ind.astype(g('dtype_ind', 'int32'))
    if g('wm', True):
        wm = np.eye(nc) + rng.normal(0, 0.08, size=(nc, nc))
        if g('wm_tri', None):
            wm = np.tril(wm) if g('wm_tri', None) == 'lower' else np.triu(wm)        # channels coupled in one direction only
        if g('wm_scale', 0):
            # a recording scaled in other units: whitening entries of magnitude wm_scale (its inverse: 1 / wm_scale, off-diagonals
            # far below any absolute tolerance), templates scaled alike so that unwhitened values stay of order 1
            wm = wm * g('wm_scale', 0)
            s.templates = (s.templates.astype(np.float64) * g('wm_scale', 0)).astype(s.templates.dtype)
        s.wm = wm
    if g('wmi_file', False):
        s.wmi_file = np.linalg.inv(s.wm_eff)
    if g('wmi_only', False) and s.wm is not None:
        s.wmi_file = np.linalg.inv(s.wm)           # only the inverse matrix is shipped
        s.wm = None
    if g('similar', False):
        s.similar_templates = rng.uniform(0, 1, size=(nt, nt))

    # spikes
    n_samples = g('n_samples', int(rng.integers(60, 400)))
    samples = np.sort(rng.integers(0, n_samples, size=ns)).astype(np.int64)
    s.spike_samples = samples
    spikeless = g('spikeless', 'none')
    avail = list(range(nt))
    if spikeless == 'first':
        avail.remove(0)
    elif spikeless == 'last':
        avail.remove(nt - 1)
    elif spikeless == 'middle' and nt >= 3:
        avail.remove(int(rng.integers(1, nt - 1)))
    st = rng.choice(avail, size=ns)
    # every available template gets at least one spike
    st[rng.permutation(ns)[:len(avail)]] = avail
    s.spike_templates = st.astype(np.int64)
    s.notes['spikeless'] = spikeless
    cl = g('clusters', 'same')
    if cl == 'absent':
        s.spike_clusters = None
    elif cl == 'same':
        s.spike_clusters = s.spike_templates.copy()
    else:
        s.spike_clusters = curate(rng, s.spike_templates, g('curation_ops', int(rng.integers(1, 5))), far=g('far_ids', 0))
    if g('amps', True):
        s.amplitudes = rng.uniform(0.5, 20., size=ns).astype(g('dtype_amps', 'float64'))
    feat = g('features', 'none')
    if feat != 'none':
        npcs = g('npcs', 3)
        if feat == 'dense':
            nloc = nc
        else:
            nloc = min(nc, g('nloc', int(rng.integers(2, 5))))
        rows = None
        if feat == 'sparse_rows':
            k = int(rng.integers(2, ns))
            rows = np.sort(rng.permutation(ns)[:k]).astype(np.int64)
            mode = g('feat_rows_mode', 'subset')
            if mode == 'complete_by_template':
                rows = np.argsort(st, kind='stable').astype(np.int64)       # every spike listed, grouped by template
            elif mode == 'subset_unsorted':
                rows = rows[rng.permutation(len(rows))]
        nrows = ns if rows is None else len(rows)
        s.pc_features = rng.normal(0, 1, size=(nrows, npcs, nloc)).astype(g('dtype_feat', 'float32'))
        if g('feat_nan_rows', 0):
            s.pc_features[rng.permutation(nrows)[:g('feat_nan_rows', 0)]] = np.nan      # stored, but undefined values
        if feat != 'dense':
            ind = np.stack([rng.permutation(nc)[:nloc] for _ in range(nt)]).astype(np.int64)
            fp = g('feat_pad', None)
            if fp and nloc >= 2 and np.dtype(g('dtype_ind', 'int32')).kind == 'i':
                # unused slots are padded with -1 (the stored values there mean nothing): scattered, or a whole column
                if fp == 'column' and nloc >= 3:
                    ind[:, 1 + int(rng.integers(0, nloc - 2))] = -1
                else:
                    pad = rng.random(ind.shape) < 0.3
                    pad[:, 0] = False
                    ind[pad] = -1
            s.pc_feature_ind = ind.astype(g('dtype_ind', 'int32'))
        s.pc_feature_spike_ids = rows
    if g('tfeatures', False):
        nloc = min(nt, g('tfeat_nloc', int(rng.integers(2, 4))))
        trows = None
        if g('tfeat_rows', False):
            k = int(rng.integers(2, ns))
            trows = np.sort(rng.permutation(ns)[:k]).astype(np.int64)
        s.template_feature_spike_ids = trows
        s.template_features = rng.normal(0, 1, size=(ns if trows is None else len(trows), nloc)).astype(np.float32)
        if g('tfeat_nonfinite', 0):
            # stored values that are NaN / inf (they are stored values like any other)
            tf_ = s.template_features
            tf_[rng.integers(0, tf_.shape[0], size=g('tfeat_nonfinite', 0)), rng.integers(0, tf_.shape[1], size=g('tfeat_nonfinite', 0))] = [np.nan, np.inf, -np.inf][int(rng.integers(0, 3))]
        tfi = np.stack([rng.permutation(nt)[:nloc] for _ in range(nt)]).astype(np.int64)
        if g('tfeat_pad', False) and nloc >= 2 and np.dtype(g('dtype_ind', 'int32')).kind == 'i':
            pad = rng.random(tfi.shape) < 0.3
            pad[:, 0] = False                                # the first slot is always used
            tfi[pad] = -1                                    # unused slots are padded with -1
        s.template_feature_ind = tfi.astype(g('dtype_ind', 'int32'))
    raw = g('raw', 'none')
    if raw != 'none':
        dt = np.dtype(raw)
        if dt.kind in 'iu':
            R = rng.integers(-300, 300, size=(n_samples, s.n_channels_dat)).astype(dt)
        else:
            R = (rng.integers(-300, 300, size=(n_samples, s.n_channels_dat)) * 0.5).astype(dt)
        s.raw = R
        k = g('raw_parts', 1)
        if k > 1 and n_samples > k:
            cuts = np.sort(rng.permutation(n_samples - 1)[:k - 1] + 1)
            s.raw_parts = np.diff(np.r_[0, cuts, n_samples]).astype(int).tolist()
        s.raw_ext = g('raw_ext', '.dat')
        s.raw_offset = g('raw_offset', 0)
    return s


def curate(rng, spike_templates, n_ops, far=0):
    """Apply random merges / splits / reassignments starting from clusters = templates."""
    sc = np.array(spike_templates, dtype=np.int64).copy()
    for _ in range(n_ops):
        ids = np.unique(sc)
        nxt = int(sc.max()) + 1
        op = int(rng.integers(0, 4))
        if op == 0 and len(ids) >= 2:       # merge k clusters into a new id
            k = int(rng.integers(2, min(4, len(ids)) + 1))
            sel = rng.choice(ids, size=k, replace=False)
            sc[np.isin(sc, sel)] = nxt
        elif op == 1:                        # split one cluster into 2-3 new ids
            c = int(rng.choice(ids))
            idx = np.nonzero(sc == c)[0]
            if len(idx) >= 2:
                parts = int(rng.integers(2, 4))
                sc[idx] = nxt + rng.integers(0, parts, size=len(idx))
        elif op == 2:                        # reassign random spikes to an existing id
            idx = rng.permutation(len(sc))[:int(rng.integers(1, 4))]
            sc[idx] = int(rng.choice(ids))
        else:                                # reassign random spikes to a far-away new id
            idx = rng.permutation(len(sc))[:int(rng.integers(1, 4))]
            sc[idx] = nxt + int(rng.integers(0, 3)) + (far if rng.random() < 0.3 else 0)
    return sc
