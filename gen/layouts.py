"""Raw-recording layouts: write a ground-truth array to disk in each backend format and open it
through phylib's public `get_ephys_reader`. The harness knows the bytes it wrote: that array is the
ground truth of every reader oracle."""
import os
from pathlib import Path

import numpy as np

FLAT_EXT = ('.dat', '.bin', '.raw', '.mda')


def unique_cells(n, nc, dtype, start=0):
    """Array whose cell value encodes (row, col) uniquely as far as the dtype allows."""
    dt = np.dtype(dtype)
    v = (np.arange(n)[:, None] * nc + np.arange(nc)[None, :] + start)
    if dt.kind == 'u':
        info = np.iinfo(dt)
        return (v % (info.max + 1)).astype(dt)
    if dt.kind == 'i':
        info = np.iinfo(dt)
        span = int(info.max) - int(info.min) + 1
        return ((v + span // 2) % span - span // 2).astype(dt) if v.size and v.max() > info.max \
            else (v - (v.max() // 2 if v.size else 0)).astype(dt)
    return (v.astype(dt) * dt.type(0.5) - dt.type(3)).astype(dt)      # (arithmetic returns native byte order)


def compositions(n):
    """All compositions of n into parts >= 1 (2**(n-1) of them)."""
    for mask in range(1 << (n - 1)):
        parts, cur = [], 1
        for i in range(n - 1):
            if mask >> i & 1:
                parts.append(cur)
                cur = 1
            else:
                cur += 1
        parts.append(cur)
        yield parts


def write_flat(d, A, parts, offset=0, ext='.dat', stem='rec', same_name=False, stray=False):
    paths = []
    i = 0
    for k, p in enumerate(parts):
        # t9, t10, t11 ...: lexicographic order differs from the order in which the parts are given
        ext_k = ext if isinstance(ext, str) else ext[k % len(ext)]         # (a list: the parts carry different, equally valid extensions)
        path = Path(d) / ('%s_t%d%s' % (stem, 9 + k, ext_k))
        if same_name:
            # Open Ephys style: recording<k>/continuous.dat - every part has the same base name
            (Path(d) / ('recording%d' % (9 + k))).mkdir(exist_ok=True)
            path = Path(d) / ('recording%d' % (9 + k)) / ('continuous' + ext_k)
        with open(path, 'wb') as f:
            f.write(bytes((7 * j + 1) % 256 for j in range(offset)))
            f.write(np.ascontiguousarray(A[i:i + p]).tobytes())
            if stray:
                # an incomplete trailing row (interrupted acquisition): fewer bytes than one row, ignored by the reader
                row = A.shape[1] * A.dtype.itemsize
                f.write(b'\x5b' * max(1, min(row - 1, [3, 2, 1][k % 3] * row // 4)))
        i += p
        paths.append(path)
    assert i == A.shape[0]
    return paths


def write_npy(d, A, stem='rec', fortran=False):
    path = Path(d) / (stem + '.npy')
    np.save(path, np.asfortranarray(A) if fortran else A)        # (column-major: what a transposed (channels, samples) array is saved as)
    return path


def write_cbin(d, A, sample_rate, chunk_len, stem='rec', n_threads=1, do_time_diff=True,
               do_spatial_diff=False):
    import mtscomp
    raw = Path(d) / (stem + '.rawtmp.bin')
    A = np.ascontiguousarray(A)
    with open(raw, 'wb') as f:
        f.write(A.tobytes())
    out = Path(d) / (stem + '.cbin')
    meta = Path(d) / (stem + '.ch')
    mtscomp.compress(raw, out, meta, sample_rate=float(sample_rate), n_channels=A.shape[1],
                     dtype=A.dtype, chunk_duration=chunk_len / float(sample_rate),
                     n_threads=n_threads, check_after_compress=False, quiet=True,
                     do_time_diff=do_time_diff, do_spatial_diff=do_spatial_diff)
    os.remove(raw)
    return out


def open_cbin(path, n_threads=1, cache_size=None, cmeta=None):
    """mtscomp.Reader with a chosen thread count (get_ephys_reader(path) would use cpu_count//2)."""
    import mtscomp
    kw = {'n_threads': n_threads}
    if cache_size:
        kw['cache_size'] = cache_size
    r = mtscomp.Reader(**kw)
    r.open(path, cmeta) if cmeta is not None else r.open(path)
    return r


def write_cbin_irregular(d, A, sample_rate, lens, stem='irr'):
    """A valid compressed file whose chunks have the given (unequal) lengths: each chunk is an independent stream and the
    .ch file lists explicit bounds and offsets, so pieces compressed one by one are simply laid end to end."""
    import json
    assert sum(lens) == A.shape[0]
    blob, bounds, offsets, meta0 = b'', [0], [0], None
    i = 0
    for k, n in enumerate(lens):
        p = write_cbin(d, A[i:i + n], sample_rate, n, stem='%s_piece%d' % (stem, k))
        m = json.loads(Path(str(p)[:-5] + '.ch').read_text())
        assert m['chunk_bounds'] == [0, n], m['chunk_bounds']
        data = p.read_bytes()
        blob += data
        bounds.append(bounds[-1] + n)
        offsets.append(offsets[-1] + len(data))
        meta0 = meta0 or m
        os.remove(p)
        os.remove(str(p)[:-5] + '.ch')
        i += n
    meta0['chunk_bounds'], meta0['chunk_offsets'] = bounds, offsets
    for key in ('sha1_compressed', 'sha1_uncompressed'):
        meta0[key] = None
    out = Path(d) / (stem + '.cbin')
    out.write_bytes(blob)
    (Path(d) / (stem + '.ch')).write_text(json.dumps(meta0, indent=2))
    return out
