"""Read-only queries and refused requests a user session makes between the calls a check judges. None of them may
change what the model answers afterwards (in-place rescaling, leaked overrides, poisoned caches)."""
import numpy as np


def poke(m, ctx=None, level=0):
    def q(f):
        try:
            return f()
        except Exception:
            return None
    nt = int(getattr(m, 'n_templates', 1) or 1)
    nc = int(getattr(m, 'n_channels', 1) or 1)
    q(lambda: m.get_amplitudes_true())
    q(lambda: m.get_amplitudes_true(sample2unit=2.5, use='clusters'))
    q(lambda: m.templates_channels)
    q(lambda: m.clusters_channels)
    q(lambda: m.templates_amplitudes)
    q(lambda: m.get_depths())
    q(lambda: m.get_template(0))
    q(lambda: m.get_template(nt - 1, unwhiten=False))
    q(lambda: m.get_merge_map())
    # valid requests with a threshold of their own (they concern that request only)
    for t_ in range(min(nt, 6)):
        q(lambda: m.get_template(t_, amplitude_threshold=0.8))
        q(lambda: m.get_template(t_, amplitude_threshold=0.8, unwhiten=False))
    # refused requests
    q(lambda: m.get_template(nt + 7, amplitude_threshold=0.9))
    q(lambda: m.get_template(0, channel_ids=[nc + 3], amplitude_threshold=0.8))
    q(lambda: m.get_features(np.array([10 ** 7]), np.array([0])))
    q(lambda: m.get_cluster_mean_waveforms(10 ** 6))
    q(lambda: m.get_waveforms(np.array([10 ** 7]), np.array([0])))
    if ctx is not None:
        ctx.mon('poked_between_calls')
