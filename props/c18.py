"""C18 - JSON, TSV/CSV and parameter-file serialisation round-trips values and types."""
import csv
import itertools
import os
import shutil

import numpy as np

from ref import serial as ref
from vmon.core import call, hkey, scratch_dir, short

ID = 'C18'
LEVEL = 'exploration'
MONITORS = ('M2', 'M6')
ANCHORS = ['phylib.utils._misc:_CustomEncoder.default', 'phylib.utils._misc:_json_custom_hook',
           'phylib.utils._misc:_intify_keys', 'phylib.utils._misc:_stringify_keys',
           'phylib.utils._misc:load_json', 'phylib.utils._misc:save_json', 'phylib.utils._misc:read_tsv',
           'phylib.utils._misc:write_tsv', 'phylib.utils._misc:_try_make_number',
           'phylib.utils._misc:_pretty_floats', 'phylib.utils._misc:_read_tsv_simple',
           'phylib.utils._misc:_write_tsv_simple', 'phylib.utils._misc:read_python',
           'phylib.utils._misc:write_python']
RULE = ('JSON: the full matrix dtype {bool,int8..uint64,float16/32/64, big-endian} x rank 0-3 x layout '
        '{C, Fortran, strided view, empty} x lengths 0,1,9,10,11,12 (exhaustive), plus seeded random '
        'dictionaries over int (also negative, NumPy) and non-numeric str top-level keys with values from '
        '{None,bool,int,float incl. NaN/inf/1e300,unicode str,list,nested dict,NumPy scalar,ndarray}. '
        'TSV/CSV: random row lists over 2-5 fields with missing fields, fully empty rows, both delimiters, '
        'cells with the other delimiter / quotes / spaces / characters that only str.splitlines treats as line breaks (\\x0b \\x0c \\x1c-\\x1e \\x85 U+2028 U+2029) / characters beyond the BMP, first_field and exclude_fields; two-column '
        'tables with arbitrary ids; params dictionaries. Each case = save with the real function, load '
        'with the real function, compare with a type-aware structural equality. non-trivial = distinct '
        'cases holding an array that is non-contiguous / Fortran / rank != 1 / exactly 10-11 long, an int '
        'key, or a quoted table cell.')
RULE += ' Round 5: digit-only string keys in nested dictionaries; cluster ids beyond 2**53 in two-column tables.'
RULE += ' Round 6: strings that look like fragments of the formats; rows repeating the header; tuples in parameter files.'
RULE += " Round 7: several views of one buffer in one dictionary; cells starting with '#'; a list of path names whose parameter line exceeds 99 characters."
RULE += " Round 8: top-level string keys that look like numbers without being str(int) output ('1_0', '+3', ' 4', superscript and full-width digits, '1e3' ...); parameter names starting or ending with '_'."
RULE += ' Round 9: tables of 1100-2100 rows in which one field is given only in the last ten rows.'
RULE += ' Round 10: tables written under .CSV / .TSV / .txt / no extension; cells containing line feeds and empty lines.'
RULE += ' Round 11: NumPy scalars as parameter values.'
RULE += ' Round 14: float16/float32 scalars that are not short decimals (the loaded value is exactly .item()).'
RULE += ' Round 13: backslashes in cells; the target folder removed between two saves.'
EXHAUSTIVE = {'quick': True, 'thorough': True}
EXHAUSTIVE_SCOPE = {'quick': 'array matrix (dtype x rank x layout x length) exhaustive; dictionaries, '
                             'tables and params sampled', 'thorough': 'same matrix; larger random part'}
FLOORS = {'quick': {'evaluations': 15000, 'distinct_nontrivial': 3000},
          'thorough': {'evaluations': 500000, 'distinct_nontrivial': 100000}}
ASSUMPTIONS = ['not representable by the formats themselves, hence not generated: top-level str keys that are integer '
               'literals (nested ones are kept as strings and are generated), strings that int()/float() accept, bool/None table cells, strings with carriage '
               'returns, params strings with quotes/backslashes, NaN/inf in params, int keys inside nested '
               'dictionaries, tuples in JSON (a parameter file keeps tuples: generated there)']
NSHARDS = 16
DTYPES = ['bool', 'int8', 'uint8', 'int16', 'uint16', 'int32', 'uint32', 'int64', 'uint64', 'float16',
          'float32', 'float64', '>f4', '>i2', '>u8']
LAYOUTS = ['C', 'F', 'strided', 'empty']
WORDS = ['good', 'mua', 'noise', 'a b', ' lead', 'trail ', 'x,y', 'tab\there', 'q"uote', "it's", 'é✓', '日本',
         '-', 'n/a', 'None', 'True', 'e', '0x', '1e', '--1', 'in f', '',
         # characters that str.splitlines() treats as line breaks but the formats do not; beyond the BMP
         # strings that look like fragments of the formats themselves
         '#1 unit', '# a comment?', '#',
         'tetrode [ 1, 2,  3 ] is noisy', 'shank [ 0 ]', '{ "a": 1 }', 'x = 3  # note', 'cluster_id',
         'page1\x0cpage2', 'a\u2028b', 'x\x85y', 'v\x0bt', 'g\x1cs\x1dr\x1e', 'p\u2029q', 'mouse\U0001F42D', '\U00020000x']


def plan(tier, seed):
    return [{'shard': i, 'n': NSHARDS, 'seed': seed, 'tier': tier} for i in range(NSHARDS)]


def make_array(dtype, rank, layout, length, rng):
    dt = np.dtype(dtype)
    if rank == 0:
        shape = ()
    elif rank == 1:
        shape = (length,)
    elif rank == 2:
        shape = (length, 3)
    else:
        shape = (2, length, 2)
    if layout == 'empty' and rank >= 1:
        shape = tuple(0 if i == rank - 1 else s for i, s in enumerate(shape)) if rank > 1 else (0,)
    n = int(np.prod(shape)) if shape else 1
    if dt.kind == 'b':
        base = rng.integers(0, 2, size=n).astype(bool)
    elif dt.kind in 'iu':
        info = np.iinfo(dt)
        base = rng.integers(max(info.min, -1000), min(info.max, 1000), size=n, endpoint=True).astype(dt)
        if n:
            base[0] = info.max
            base[-1] = info.min
    else:
        base = (rng.normal(size=n) * 10).astype(dt)
        if n > 2:
            base[1] = np.nan
            base[2] = np.inf
    a = base.reshape(shape)
    if layout == 'F' and rank >= 2:
        a = np.asfortranarray(a)
    elif layout == 'strided' and rank >= 1 and n:
        big = np.zeros(tuple(2 * s for s in shape), dtype=dt)
        view = big[tuple(slice(None, None, 2) for _ in shape)]
        view[...] = a
        a = view
    return a


def rand_value(rng, depth=0):
    k = int(rng.integers(0, 12 if depth < 2 else 8))
    if k == 0:
        return None
    if k == 1:
        return bool(rng.integers(0, 2))
    if k == 2:
        return int(rng.integers(-10 ** 12, 10 ** 12)) if rng.random() < 0.5 else int(rng.integers(-5, 5))
    if k == 3:
        return [float('nan'), float('inf'), -float('inf'), 1e300, 1e-7, 2.0, -0.0, 0.1][int(rng.integers(0, 8))]
    if k == 4:
        return float(rng.normal())
    if k == 5:
        return WORDS[int(rng.integers(0, len(WORDS)))]
    if k == 6:
        # (round 14: float16 / float32 scalars that are not short decimals - the value that comes back is .item(),
        # the exact double of the narrow value, not the double nearest to its shortest decimal spelling)
        return [np.int64(7), np.float32(1.5), np.uint8(200), np.float64(np.nan), np.bool_(True),
                np.int16(-3), np.float32(0.1), np.float16(0.3), np.float32(rng.normal() * 100),
                np.float16(rng.normal())][int(rng.integers(0, 10))]
    if k == 7:
        return make_array(DTYPES[int(rng.integers(0, len(DTYPES)))], int(rng.integers(0, 4)),
                          LAYOUTS[int(rng.integers(0, 4))], [0, 1, 2, 9, 10, 11, 12, 30][int(rng.integers(0, 8))], rng)
    if k in (8, 9):
        return [rand_value(rng, depth + 1) for _ in range(int(rng.integers(0, 4)))]
    # (these dictionaries are always nested: digit-only string keys stay strings there - only top-level keys are
    # turned into integers)
    return {('k%d' % i if i % 3 == 1 else (['0', '2024', '-12', '007'][(i + depth) % 4] if i % 3 == 2 else WORDS[(i * 5 + depth) % 16] + str(i))):
            rand_value(rng, depth + 1) for i in range(int(rng.integers(0, 5)))}


def run_shard(desc, ctx):
    tier, sh, ns = desc['tier'], desc['shard'], desc['n']
    d = scratch_dir('c18_')
    try:
        idx = 0
        for dt, rank, lay, length in itertools.product(DTYPES, range(4), LAYOUTS, [0, 1, 9, 10, 11, 12]):
            idx += 1
            if idx % ns == sh:
                run_case({'kind': 'json_array', 'dtype': dt, 'rank': rank, 'layout': lay, 'length': length,
                          'seed': [desc['seed'], idx]}, ctx, d)
        if sh >= 4 and sh < 8:
            # several views of ONE buffer in one dictionary: same start address, shape and dtype, different strides
            base = np.arange(64, dtype=['float64', 'int32', 'float32', 'int16'][sh - 4]).reshape(8, 8) * 3 + 1
            x = np.arange(48, dtype=base.dtype) - 7
            views = {'m': base, 'mT': base.T, 'x20': x[:20], 'x40_2': x[:40:2], 7: [base[::2, ::2], base[:4, :4]], 'copy': base.copy()}
            _roundtrip_json({'kind': 'json_views', 'shard': sh}, ctx, d, views, True, ('json_views',))
        if sh < 4:           # size: arrays beyond 1 MiB of raw data (and one of exactly 1 MiB), long lists, deep nesting
            rngb = np.random.default_rng([desc['seed'], sh, 1818])
            # raw sizes straddling 1 MiB: 2**20 + 8 bytes, 1.6 MB, 1.2 MB (Fortran order), 1.2 MB
            bshape = [(131073, 1), (200000, 2), (100000, 3), (150000, 4)][sh]
            barr = (rngb.normal(size=bshape) * 1e3).astype(['float64', 'float32', 'int32', 'uint16'][sh])
            big = {'big': np.asfortranarray(barr) if sh == 2 else barr, 'exactly_1MiB': np.arange(131072, dtype='float64'),
                   7: list(range(3000)), 'deep': {'a': {'b': {'c': [np.arange(11), {'d': np.int16(-3)}]}}}}
            _roundtrip_json({'kind': 'json_big', 'shard': sh}, ctx, d, big, True, ('json_big',))
        nrand = (16000 if tier == 'quick' else 900000) // ns
        for i in range(nrand):
            kind = ['json_dict', 'json_dict', 'tsv', 'tsv', 'tsv_simple', 'params'][i % 6]
            run_case({'kind': kind, 'seed': [desc['seed'], sh, i]}, ctx, d)
    finally:
        shutil.rmtree(d, ignore_errors=True)


def run_case(case, ctx, d=None):
    own = d is None
    if own:
        d = scratch_dir('c18_')
    try:
        globals()['_' + case['kind']](case, ctx, d)
    finally:
        if own:
            shutil.rmtree(d, ignore_errors=True)


_JSON_SAVES = [0]


def _roundtrip_json(case, ctx, d, obj, nontriv, cell):
    from phylib.utils._misc import save_json, load_json
    # the file goes into a folder that save_json creates; every now and then the folder was removed since the last save
    # (a cleaned-up session folder that is written again)
    path = os.path.join(d, 'session out', 'x.json')
    _JSON_SAVES[0] += 1
    if _JSON_SAVES[0] % 7 == 3 and os.path.isdir(os.path.dirname(path)):
        shutil.rmtree(os.path.dirname(path))
        ctx.cell('json', 'folder_removed_between_saves')
    ctx.count(1, key=hkey(repr(case)), nontrivial=nontriv, cell=cell)
    r = call(save_json, path, obj)
    if not r.ok:
        ctx.violation('save_raised', case, 'save_json raised %r on %s' % (r.exc, short(obj, 300)),
                      {'fmt': 'json'}, tb=r.tb)
        return
    r = call(load_json, path)
    if not r.ok:
        ctx.violation('load_raised', case, 'load_json raised %r on %s' % (r.exc, short(obj, 300)),
                      {'fmt': 'json'}, tb=r.tb)
        return
    dd = ref.diff(ref.expected_json(obj), r.value)
    if dd:
        neg = any(isinstance(k, (int, np.integer)) and k < 0 for k in obj)
        ctx.violation('json_roundtrip', case, '%s  (saved %s)' % (dd, short(obj, 300)),
                      {'fmt': 'json', 'negative_int_key': neg and 'keys' in dd})


def _json_array(case, ctx, d):
    rng = np.random.default_rng(case['seed'])
    a = make_array(case['dtype'], case['rank'], case['layout'], case['length'], rng)
    nontriv = case['layout'] in ('F', 'strided') or case['rank'] != 1 or case['length'] in (10, 11)
    obj = {'arr': a, 3: [a, {'inner': a}]}
    _roundtrip_json(case, ctx, d, obj, nontriv, ('json_array', case['dtype'], 'rank%d' % case['rank'], case['layout']))
    ctx.sample(case, every=401)


def _json_dict(case, ctx, d):
    rng = np.random.default_rng(case['seed'])
    obj = {}
    has_int = False
    for i in range(int(rng.integers(0, 6))):
        if rng.random() < 0.4:
            k = int(rng.integers(0, 10 ** 6)) if rng.random() < 0.8 else -int(rng.integers(1, 50))
            if rng.random() < 0.15:
                k = np.int64(k)
            has_int = True
        elif rng.random() < 0.2:
            # strings that look like numbers without being what str(int) writes: they are strings and stay strings
            k = NUMBERISH[int(rng.integers(0, len(NUMBERISH)))]
            has_int = True
        else:
            k = WORDS[int(rng.integers(0, 16))] + 'k%d' % i
        obj[k] = rand_value(rng)
    txt = repr(obj)
    nontriv = has_int or 'array' in txt
    _roundtrip_json(case, ctx, d, obj, nontriv, ('json_dict',))
    ctx.sample({'seed': case['seed'], 'obj': short(obj, 300)}, every=1501)


NUMBERISH = ['1_0', '+3', ' 4', '5\n', '6 ', '\u00b2', '\uff11\uff12', '\u0663', '-', '', '--1', '-\u00b2', '1.0', '1e3', '0x10', '- 1',
             '\u22125', '1,000', '\u2160', '-\uff11']


FIELDS = ['cluster_id', 'group', 'amp', 'KSLabel', 'n spikes', 'depth', 'q"f']


def rand_cell(rng):
    k = int(rng.integers(0, 6))
    if k == 0:
        return int(rng.integers(-1000, 100000))
    if k == 1:
        return [float(rng.normal() * 100), 1e-7, 2.0, 12345.678912, float('nan'), float('inf'), 1e20,
                -0.00004999][int(rng.integers(0, 8))]
    if k == 2:
        return np.float32(rng.normal())
    if k == 3:
        return np.int64(rng.integers(0, 500))
    w = WORDS[int(rng.integers(0, len(WORDS)))]
    return w if (w and not ref.is_numeric_literal(w) and w.strip(' ') == w or w in (' lead', 'trail ')) and w else 'w'


def _tsv(case, ctx, d):
    from phylib.utils._misc import write_tsv, read_tsv
    rng = np.random.default_rng(case['seed'])
    ext = ['.tsv', '.csv'][int(rng.integers(0, 2))]
    if case['seed'][2] % 7 == 3:
        ext = ['.CSV', '.TSV', '.txt', ''][case['seed'][2] // 7 % 4]       # other spellings: written with commas, read by looking at the header
    nf = int(rng.integers(2, 6))
    fields = [FIELDS[i] for i in rng.permutation(len(FIELDS))[:nf]]
    rows = []
    long_ = case['seed'][2] % 97 == 13          # a table of a thousand or two rows in which one field is given only near the end
    n_rows = int(rng.integers(1, 7)) if not long_ else [1100, 1600, 2100][case['seed'][1] % 3]
    for i_ in range(n_rows):
        row = {}
        for f in fields:
            if long_ and f == fields[-1] and i_ < n_rows - 10:
                continue
            if rng.random() < 0.75:
                row[f] = rand_cell(rng)
                if isinstance(row[f], str) and case['seed'][2] % 5 == 1 and rng.random() < 0.4:
                    row[f] = ['x\ny', 'p\n\nq', 'two\n\n\nlines', '\n', 'C:\\data\\rec1', 'back\\', '\\n is not a line feed'][int(rng.integers(0, 7))]       # line feeds (also empty lines) and backslashes inside a cell
        rows.append(row)
    if long_:
        rows[-1][fields[-1]] = 'late'
        ctx.cell('tsv', 'long_table_late_field')
    if rng.random() < 0.3:
        rows.insert(int(rng.integers(0, len(rows) + 1)), {})
    if rng.random() < 0.15:
        # a row whose cells repeat the column names (as a pasted header line would)
        rows.insert(int(rng.integers(0, len(rows) + 1)), {f: f for f in fields})
    # a header that contains the other delimiter would defeat delimiter sniffing by design: our field
    # alphabet has neither tabs nor commas
    first = fields[int(rng.integers(0, nf))] if rng.random() < 0.7 else None
    excl = (fields[int(rng.integers(0, nf))],) if rng.random() < 0.2 else ()
    used = set().union(*[set(r) for r in rows]) - set(excl)
    if len(used) < 2:
        ctx.note('tsv_skipped_lt2_columns')
        return
    path = os.path.join(d, 't' + ext)
    quoted = any(isinstance(v, str) and any(c in v for c in ',\t" ') for r in rows for v in r.values())
    desc = {'ext': ext, 'rows': rows if not long_ else rows[-12:], 'n_rows': len(rows), 'first_field': first, 'exclude': list(excl), 'seed': case['seed']}
    ctx.count(1, key=hkey('tsv', tuple(case['seed'])), nontrivial=quoted, cell=('tsv', ext))
    ctx.sample(desc, every=1201)
    r = call(write_tsv, path, rows, first_field=first, exclude_fields=excl)
    if not r.ok:
        ctx.violation('save_raised', desc, 'write_tsv raised %r' % r.exc, {'fmt': 'tsv'}, tb=r.tb)
        return
    r = call(read_tsv, path)
    if not r.ok:
        ctx.violation('load_raised', desc, 'read_tsv raised %r' % r.exc, {'fmt': 'tsv'}, tb=r.tb)
        return
    exp = []
    for row in rows:
        e = {}
        for k, v in row.items():
            if k in excl:
                continue
            if isinstance(v, (float, np.floating)):
                e[k] = float('%.4f' % v)
            elif isinstance(v, np.integer):
                e[k] = int(v)
            else:
                e[k] = v
        exp.append(e)
    dd = ref.diff(exp, r.value)
    if dd:
        ctx.violation('tsv_roundtrip', desc, dd, {'fmt': 'tsv', 'ext': ext})
    with open(path, newline='') as f:
        header = next(csv.reader(f, delimiter='\t' if ext == '.tsv' else ','))
    if first in used and header[0] != first:
        ctx.violation('first_field_not_first', desc, 'header %r' % header, {'fmt': 'tsv'})
    if set(header) != used:
        ctx.violation('tsv_header_fields', desc, 'header %r != fields %r' % (header, sorted(used)), {'fmt': 'tsv'})


def _tsv_simple(case, ctx, d):
    from phylib.utils._misc import _write_tsv_simple, _read_tsv_simple
    rng = np.random.default_rng(case['seed'])
    ext = ['.tsv', '.csv'][int(rng.integers(0, 2))]
    field = ['group', 'KSLabel', 'my field', 'Amplitude'][int(rng.integers(0, 4))]
    data = {}
    for _ in range(int(rng.integers(0, 8))):
        cid = int(rng.integers(0, 70000)) if rng.random() < 0.9 else -int(rng.integers(1, 9))
        if rng.random() < 0.08:
            cid = [2 ** 53 + 1, 10 ** 17 + 7, 2 ** 63 - 1, 2 ** 53 + 3, 2 ** 31, 2 ** 32 + 1][int(rng.integers(0, 6))]     # 64-bit-wide id spaces
        k = int(rng.integers(0, 3))
        if k == 0:
            v = int(rng.integers(-50, 5000))
        elif k == 1:
            v = [float(rng.normal()), 1e-7, 2.0, 0.1 + 0.2, float('nan'), 1e300][int(rng.integers(0, 6))]
        else:
            v = rand_cell(rng)
            v = v if isinstance(v, str) else 'good'
        data[cid] = v
    path = os.path.join(d, 's' + ext)
    desc = {'ext': ext, 'field': field, 'data': data, 'seed': case['seed']}
    quoted = any(isinstance(v, str) and any(c in v for c in ',\t" ') for v in data.values())
    ctx.count(1, key=hkey('simple', tuple(case['seed'])), nontrivial=quoted or any(k < 0 for k in data),
              cell=('tsv_simple', ext))
    r = call(_write_tsv_simple, path, field, data)
    if not r.ok:
        ctx.violation('save_raised', desc, '_write_tsv_simple raised %r' % r.exc, {'fmt': 'tsv_simple'}, tb=r.tb)
        return
    r = call(_read_tsv_simple, path)
    if not r.ok:
        ctx.violation('load_raised', desc, '_read_tsv_simple raised %r' % r.exc, {'fmt': 'tsv_simple'}, tb=r.tb)
        return
    dd = ref.diff([field, data], list(r.value) if isinstance(r.value, tuple) else r.value)
    if dd:
        ctx.violation('tsv_simple_roundtrip', desc, dd, {'fmt': 'tsv_simple'})


def _params(case, ctx, d):
    from phylib.utils._misc import write_python, read_python
    rng = np.random.default_rng(case['seed'])

    def val(depth=0):
        k = int(rng.integers(0, 7 if depth == 0 else 5))
        if k == 0:
            return int(rng.integers(-10, 400))
        if k == 1:
            return [30000., 0.1 + 0.2, 1e-7, 2.5e10, -1.5][int(rng.integers(0, 5))]
        if k == 2:
            return ['int16', 'data.dat', 'a b', 'é', '', 'x#y', ' lead', 'trail ', "it's", '/data/mouse\U0001F42D/rec.bin',
                    '\U00020000.dat', 'a\u2028b'][int(rng.integers(0, 12))]
        if k == 3:
            return bool(rng.integers(0, 2))
        if k == 4:
            return None
        if k == 6 and depth == 0 and rng.random() < 0.5:
            # a long list of names with blanks (a parameter line far beyond any editor's line length)
            return ['/data/my recordings/session %02d/raw data file.bin' % i for i in range(int(rng.integers(3, 9)))]
        if k == 5 and rng.random() < 0.5:
            return tuple(val(1) for _ in range(int(rng.integers(0, 3))))        # tuples survive a parameter file: (), (x,), (x, y)
        return [val(1) for _ in range(int(rng.integers(0, 4)))]
    keys = ['dat_path', 'n_channels_dat', 'dtype', 'offset', 'sample_rate', 'hp_filtered', 'extra_1', '_version', '__private', 'trailing_', 'x', '_']
    data = {k: val() for k in keys if rng.random() < 0.8}
    expd = dict(data)
    if case['seed'][2] % 4 == 1:
        # values that come out of NumPy computations (a channel count, a measured rate, a flag): they read back as the equal
        # plain numbers
        for k_, v_ in (('n_channels_dat', np.int64(385)), ('sample_rate', np.float64(29999.954846)), ('hp_filtered', np.True_),
                       ('offset', np.uint16(16)), ('extra_1', np.float32(2.5))):
            if rng.random() < 0.7:
                data[k_] = v_
                expd[k_] = v_.item()
    path = os.path.join(d, 'params.py')
    ctx.count(1, key=hkey('params', tuple(case['seed'])), nontrivial=any(isinstance(v, list) for v in data.values()),
              cell=('params',))
    r = call(write_python, path, data)
    if not r.ok:
        ctx.violation('save_raised', data, 'write_python raised %r' % r.exc, {'fmt': 'params'}, tb=r.tb)
        return
    r = call(read_python, path)
    if not r.ok:
        ctx.violation('load_raised', data, 'read_python raised %r' % r.exc, {'fmt': 'params'}, tb=r.tb)
        return
    dd = ref.diff(expd, r.value)
    if dd:
        ctx.violation('params_roundtrip', {k_: repr(v_) for k_, v_ in data.items()}, dd, {'fmt': 'params'})
