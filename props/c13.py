"""C13 - ALF export writes consistent object tables that load back to the same spikes.
(The same conversions are judged against C14's value oracle by props/c14.py.)"""
import glob
import os
import shutil

import numpy as np

from gen.dataset import random_spec
from vmon.core import call, same, hkey, scratch_dir
from vmon import monitors
from vmon.monitors import snapshot, snapshot_diff

ID = 'C13'
LEVEL = 'exploration'
MONITORS = ('M1', 'M2', 'M3', 'M6')
ANCHORS = ['phylib.io.alf:EphysAlfCreator.convert', 'phylib.io.alf:EphysAlfCreator.copy_files',
           'phylib.io.alf:EphysAlfCreator.make_cluster_objects',
           'phylib.io.alf:EphysAlfCreator.make_template_and_spikes_objects',
           'phylib.io.alf:EphysAlfCreator.rename_with_label', 'phylib.io.alf:EphysAlfCreator.compress_spikes_dtypes',
           'phylib.io.model:TemplateModel._load_spike_samples', 'phylib.io.model:TemplateModel._load_templates']
RULE = ('Each case = a generated dense-template dataset {raw data int16/float32 in 1-3 files | absent} x '
        '{features dense/sparse | none} x {curated | uncurated, with a spikeless template first/middle/last} x '
        '{probe table with 1 or 2 probes whose ids need not be 0..n-1, block-wise and far apart or interleaved and close | none} x {KSLabel / other TSVs, temp_wh.dat, cluster_probes, (n,1) vectors} x id dtype int32/uint32/uint16 with cluster ids occasionally jumping by 300 or 2500, occasionally 300 templates x 3 large datasets (300000 spikes: id files > 1 MiB) x label '
        '{"", "lbl", "a", "n", "clu", "t", "probe00"} x unit factor {1, 2.5}, loaded and converted with the real EphysAlfCreator.convert. C13 '
        'oracle: file-table checker over the output directory (required files, first dimension per object, '
        'times in seconds / samples in samples, unique uuids, label in every object file name), equality of '
        'the reloaded model with the source, refusal of the source directory as target under several spellings (trailing separator, dot-dot, dot, symlink), content hashes of '
        'the source directory before/after (allowed: temp_wh.dat deleted, _phy_spikes_subset.* added). '
        'non-trivial = distinct conversions with a label, or curated clusters with an empty id, or raw data.')
RULE += ' Added classes: recordings spanning more than 2**32 samples; output paths with glob metacharacters (also as parent folder); sources shipped with a spike-waveform subset but without raw data; template_scaling in params.py; histories: the same creator converting again with another unit factor, and export / curation in the source / force=True re-export into the same directory.'
RULE += ' Round 6: the refusal of the source directory also with force=True; a target differing from the source by letter case; truncated raw files; a Kilosort-2 templates_ind.npy.'
RULE += " Round 7: spike seconds on a skewed clock (spikes.times.npy + spikes.samples.npy in a KS-named source); a sibling target sharing the source's name prefix; probe tables of any numeric dtype; int32 / int64 / uint32 channel maps; a channel listed twice in a feature column table."
RULE += ' Round 8: probe tables with three and four probes; convert(out, label=None); fractional sampling rates.'
RULE += " Round 9: Kilosort's batch-ordered spike_times_reordered.npy in the source; a labelled and then an unlabelled conversion on one creator."
RULE += ' Round 10: session files named temp_wheel_session.dat / temp_wh2.dat in the source; a forced re-export after the geometry and cluster files were replaced by same-size files dated 2001; templates with an exactly silent channel.'
RULE += ' Round 12: sources giving spikes in seconds only (rounding-sensitive sample numbers); the channel map stored as channels.rawInd.npy; spikes with amplitude zero or below.'
RULE += " Round 13: interleaved shanks; an optional channel_labels.npy in the source; the loaded export's template accessors (both forms agree unless params.py carries a display factor)."
RULE += ' Round 14: an all-NaN template that no spike refers to in the source; pre-existing source files compared with their content before load_model.'
EXHAUSTIVE = {'quick': False, 'thorough': False}
FLOORS = {'quick': {'evaluations': 600, 'distinct_nontrivial': 300},
          'thorough': {'evaluations': 9000, 'distinct_nontrivial': 5000}}
ASSUMPTIONS = ['ids below 65536 (the export stores them as uint16)',
               'with a multi-probe channel table the reloaded channel map is the per-probe re-expressed one '
               '(C14); equality with the source map is judged for single-probe sources']
NSHARDS = 16
REQUIRED = {'spikes': ['times', 'samples', 'amps', 'depths', 'clusters', 'templates'],
            'clusters': ['channels', 'peakToTrough', 'amps', 'uuids', 'depths', 'waveforms', 'waveformsChannels'],
            'templates': ['amps', 'waveforms', 'waveformsChannels'],
            'channels': ['rawInd', 'localCoordinates']}


def plan(tier, seed):
    n = 640 if tier == 'quick' else 10000
    return [{'shard': i, 'n': NSHARDS, 'seed': seed, 'cases': n // NSHARDS, 'large': 3 if tier == 'quick' else 16}
            for i in range(NSHARDS)]


def run_shard(desc, ctx):
    for i in range(desc['cases']):
        run_case({'seed': [desc['seed'], desc['shard'], i], 'source': 'generated'}, ctx)
    if desc['shard'] < desc.get('large', 3):
        run_case({'seed': [desc['seed'], desc['shard'], 777], 'source': 'generated', 'large': True}, ctx)


def run_case(case, ctx, which='C13'):
    d = scratch_dir('c13_')
    try:
        _run(case, ctx, d, which)
    finally:
        shutil.rmtree(d, ignore_errors=True)


def build(case):
    rng = np.random.default_rng(case['seed'])
    raw = ['none', 'int16', 'float32'][int(rng.integers(0, 3))]
    opts = dict(nc=[3, 6, 9, 14][int(rng.integers(0, 4))], nt=int(rng.integers(2, 7)), ns=int(rng.integers(10, 70)),
                nsw=int(rng.integers(3, 7)), raw=raw, raw_parts=int(rng.integers(1, 4)), n_samples=int(rng.integers(60, 200)),
                features=['none', 'dense', 'sparse'][int(rng.integers(0, 3))],
                clusters=['same', 'absent', 'curated', 'curated'][int(rng.integers(0, 4))],
                spikeless=['none', 'first', 'middle', 'last'][int(rng.integers(0, 4))],
                probes=bool(rng.random() < 0.35), wm=bool(rng.random() < 0.75), vec2d=bool(rng.random() < 0.25),
                rate=[100., 30000., 0.05, 1. / 300][int(rng.integers(0, 4))],   # 0.05 -> 30-sample chunks, 1/300 -> 2-sample chunks (> 20 chunks)
                ties=bool(rng.random() < 0.3),
                shanks=[0, 2][int(rng.integers(0, 2))], ncdat_extra=int(rng.integers(0, 2)),
                dtype_ids=['int32', 'uint32', 'uint16'][int(rng.integers(0, 3))],
                dtype_map=['int32', 'int64', 'uint32'][int(rng.integers(0, 3))],
                dtype_times=['uint64', 'int64', 'float64', 'uint32'][int(rng.integers(0, 4))],   # float64: MATLAB-written sample numbers
                far_ids=int(rng.choice([0, 0, 0, 0, 300, 2500])))
    if rng.random() < 0.03:
        # many templates with narrow id dtypes (products of ids overflow 16 bits)
        opts.update(nt=300, ns=900, dtype_ids='uint16', clusters='curated', far_ids=0, raw='none', features='none')
    opts.update(dtype_amps=['float64', 'float32'][int(rng.integers(0, 2))],
                dtype_templates=['float32', 'float32', 'float64'][int(rng.integers(0, 3))])
    if case['seed'][2] % 3 == 0 and opts['shanks']:
        opts.update(interleave=True, nc=[14, 20][case['seed'][2] % 2])        # two shanks whose sites alternate along one dense probe
    if case['seed'][2] % 5 == 2:
        opts['exact_amps'] = True        # every template has an exactly silent channel (on which another template of a merge may have signal)
    if rng.random() < 0.04:
        # very long recordings: sample indices beyond 2**32 (> 39.8 h at 30 kHz)
        opts.update(n_samples=int(2 ** 32 + rng.integers(1, 10 ** 9)), raw='none', rate=30000.,
                    dtype_times=['uint64', 'int64', 'float64'][int(rng.integers(0, 3))])
    if rng.random() < 0.1:
        opts.update(pos_offset=float(2 ** 24), dtype_pos='float64')      # coordinates that float32 cannot tell apart
    if case.get('batch'):
        # spike counts that are exact multiples of the 50000-spike batches, with features (depths come from them)
        opts.update(ns=[100000, 50000][case['seed'][1] % 2], n_samples=400000, raw='none', features=['sparse', 'dense'][case['seed'][1] % 2],
                    far_ids=0, nc=6, nt=5, rate=30000., clusters='same', probes=False)
    if case.get('large'):
        # size-dependent code paths: > 1 MiB id files (> 262144 int32 spikes)
        opts.update(ns=300000, n_samples=400000, raw='none', features='none', far_ids=0, nc=6, nt=5, rate=30000.)
    spec = random_spec(rng, **opts)
    if spec.pc_feature_ind is not None and spec.pc_feature_ind.shape[1] >= 2 and rng.random() < 0.2:
        spec.pc_feature_ind[0, 1] = spec.pc_feature_ind[0, 0]       # a column table listing one channel twice (both columns weigh in the depth)
    if rng.random() < 0.2 and not case.get('large') and not case.get('batch'):
        # a KS-named source whose spike times are given the ALF way: seconds from a synchronised clock (offset and drift,
        # not samples / rate) in spikes.times.npy plus spikes.samples.npy; the export keeps those seconds
        spec.notes['hybrid_times'] = spec.spike_samples.astype(np.float64) / spec.sample_rate * 1.00002 + 0.125
    if spec.notes.get('hybrid_times') is None and case['seed'][2] % 9 == 5 and not case.get('large') and not case.get('batch') and spec.sample_rate >= 100.:
        # a source that gives its spikes in seconds only (spikes.times.npy = sample / rate, no sample file at all): the samples
        # are recovered by rounding; some spikes sit on sample numbers k for which (k / rate) * rate falls just below k
        rate_ = spec.sample_rate
        hi_ = int(spec.spike_samples.max())
        cands = [k_ for k_ in range(1, max(2, min(hi_, 5000))) if (k_ / rate_) * rate_ < k_][:6]
        ss_ = spec.spike_samples.astype(np.int64).copy()
        if cands and len(ss_) > len(cands) + 2:
            ss_[:len(cands)] = cands
            spec.spike_samples = np.sort(ss_).astype(spec.spike_samples.dtype)
        spec.notes['seconds_only'] = True
    if case['seed'][2] % 6 == 1 and spec.amplitudes is not None and spec.n_spikes > 6:
        # a few spikes with a stored amplitude of exactly zero or below zero (failed fits): they are spikes like the others
        iz_ = rng.permutation(spec.n_spikes)[:4]
        spec.amplitudes[iz_[:2]] = 0
        spec.amplitudes[iz_[2:]] = -1.5
    if spec.probes is not None:
        # 2-probe table following the merge convention: raw indices of probe 1 = local map + max(map of probe 0)
        nc = spec.n_channels
        n0 = max(2, nc // 2)
        spec.probes = np.r_[np.zeros(n0, np.int32), np.ones(nc - n0, np.int32)]
        labels = [(0, 1), (0, 2), (1, 3), (1, 1), (2, 2)][int(rng.integers(0, 5))]   # ids need not be 0..n-1
        if labels[0] == labels[1]:
            n0 = nc                       # a single probe, labelled with a non-zero id
            spec.probes = np.full(nc, labels[0], dtype=np.int32)
        else:
            spec.probes = np.r_[np.full(n0, labels[0], np.int32), np.full(nc - n0, labels[1], np.int32)]
        spec.notes['probe_labels'] = list(labels)
        spec.probes = spec.probes.astype(['int32', 'int64', 'int16', 'float64', 'uint8'][int(rng.integers(0, 5))])     # probe tables of any numeric dtype
        m0 = rng.permutation(n0 + 1)[:n0]
        m1 = rng.permutation(nc - n0 + 1)[:nc - n0]
        spec.notes['orig_maps'] = [m0.tolist(), m1.tolist()] if nc > n0 else [m0.tolist()]
        spec.channel_map = np.r_[m0, m1 + m0.max()].astype(np.int64)
        interleaved = nc > n0 and rng.random() < 0.4
        if interleaved:
            # the two probes' channels alternate in the channel arrays and are physically close
            order = np.argsort(np.r_[np.arange(n0) * 2, np.arange(nc - n0) * 2 + 1], kind='stable')
            spec.probes = spec.probes[order]
            spec.channel_map = spec.channel_map[order]
            spec.notes['interleaved_probes'] = True
        spec.notes['rawind_expected'] = (spec.channel_map - np.where(spec.probes == spec.probes.min(), 0, m0.max())).tolist() \
            if nc > n0 else spec.channel_map.tolist()
        spec.n_channels_dat = int(spec.channel_map.max()) + 1 + opts['ncdat_extra']
        if spec.raw is not None:
            spec.raw = rng.integers(-300, 300, size=(spec.raw.shape[0], spec.n_channels_dat)).astype(spec.raw.dtype)
        if nc > n0 and not interleaved:
            spec.positions[n0:, 0] += 500.
    ids = np.unique(spec.clusters)
    if rng.random() < 0.6:
        spec.tsv['cluster_KSLabel.tsv'] = 'cluster_id\tKSLabel\n' + ''.join(
            '%d\t%s\n' % (c, ['good', 'mua'][int(rng.integers(0, 2))]) for c in ids.tolist())
    if rng.random() < 0.4:
        spec.tsv['cluster_group.tsv'] = 'cluster_id\tgroup\n' + ''.join('%d\tgood\n' % c for c in ids.tolist()[:3])
    if rng.random() < 0.4:
        spec.extra_files['temp_wh.dat'] = b'\x00' * 64
    if case['seed'][2] % 4 == 2:
        # an optional per-channel file that the export copies under its ALF name (channels.labels)
        import io as _io
        for fn_, arr_ in (('channel_labels.npy', np.arange(spec.n_channels, dtype=np.int32) % 3),):
            bio_ = _io.BytesIO()
            np.save(bio_, arr_)
            spec.extra_files[fn_] = bio_.getvalue()
    if case['seed'][2] % 5 == 1:
        # other files of the session whose names begin like the sorter's temporary file: they stay
        spec.extra_files['temp_wheel_session.dat'] = b'\x01\x02' * 32
        spec.extra_files['temp_wh2.dat'] = b'\x03' * 16
    if rng.random() < 0.3:
        spec.notes['cluster_probes'] = True
    if spec.raw is not None and rng.random() < 0.3:
        spec.notes['raw_symlink'] = True         # raw files reached through symbolic links
    if spec.raw is not None and not spec.raw_parts and rng.random() < 0.15 and spec.n_spikes > 6:
        cut = int(spec.spike_samples[spec.n_spikes * 3 // 4])
        if cut > 30:
            spec.raw = spec.raw[:cut]             # the raw file ends before the last spikes
    if case['seed'][2] % 6 == 4 and spec.names == 'ks':
        # Kilosort's optional batch-ordered copy of the spike times (seconds, NOT increasing) lies in the source; it is no
        # part of what is exported
        import io
        bio = io.BytesIO()
        np.save(bio, rng.permutation(spec.spike_samples.astype(np.float64) / spec.sample_rate))
        spec.extra_files['spike_times_reordered.npy'] = bio.getvalue()
    if rng.random() < 0.25:
        spec.notes['ks2_templates_ind'] = True     # a Kilosort-2 templates_ind.npy next to the dense templates (ignored by phylib)
    if rng.random() < 0.2:
        spec.notes['template_scaling'] = [20.0, 0.5][int(rng.integers(0, 2))]   # display-only option of params.py
    if spec.raw is None and rng.random() < 0.3:
        # a dataset shipped without its raw data but with the spike-waveform subset extracted earlier
        import io
        nsub = int(rng.integers(2, max(3, spec.n_spikes // 2)))
        sub_ids = np.sort(rng.permutation(spec.n_spikes)[:nsub]).astype(np.int64)
        for fn, arr in (('spikes', sub_ids), ('channels', np.tile(np.arange(2, dtype=np.int32), (nsub, 1))),
                        ('waveforms', rng.normal(size=(nsub, spec.nsw, 2)).astype(np.float32))):
            bio = io.BytesIO()
            np.save(bio, arr)
            spec.extra_files['_phy_spikes_subset.%s.npy' % fn] = bio.getvalue()
        spec.notes['subset_without_raw'] = True
    label = ['', 'lbl', '', 'a', 'n', 'clu', 't', 'probe00', None][int(rng.integers(0, 9))]      # (None: no label, like '')   # also labels that are prefixes of attribute names / extensions
    factor = [1, 2.5][int(rng.integers(0, 2))]
    return spec, opts, label, factor


def _run(case, ctx, d, which):
    from phylib.io.model import load_model
    from phylib.io.alf import EphysAlfCreator
    if case.get('source') == 'merged':
        from props.c14 import build_merged
        src, spec_info = build_merged(case, d)
        if src is None:
            return
        spec, opts, label, factor = spec_info
    else:
        spec, opts, label, factor = build(case)
        src = os.path.join(d, 'src')
        t_nan_ = None
        if case['seed'][2] % 8 == 6 and spec.templates is not None and spec.templates.dtype.kind == 'f':
            # (round 14) a template that no spike refers to is NaN everywhere in the source (a template the sorter dropped): it
            # is an empty template, read as zeros - and the source file keeps its NaN (snapshot comparison below)
            unused_ = sorted(set(range(spec.n_templates)) - set(np.asarray(spec.spike_templates).astype(np.int64).tolist()))
            if unused_:
                t_nan_ = unused_[0]
                spec.templates[t_nan_] = np.nan
        spec.write(src)
        if t_nan_ is not None:
            spec.templates[t_nan_] = 0
            spec.notes['nan_template_unused'] = t_nan_
        if spec.notes.get('hybrid_times') is not None:
            os.remove(os.path.join(src, 'spike_times.npy'))
            np.save(os.path.join(src, 'spikes.times.npy'), spec.notes['hybrid_times'])
            np.save(os.path.join(src, 'spikes.samples.npy'), spec.spike_samples)
        if spec.notes.get('seconds_only'):
            os.remove(os.path.join(src, 'spike_times.npy'))
            np.save(os.path.join(src, 'spikes.times.npy'), spec.spike_samples.astype(np.float64) / spec.sample_rate)
        if case['seed'][2] % 7 == 3 and os.path.exists(os.path.join(src, 'channel_map.npy')):
            # the channel map is stored under its ALF name in the source
            os.rename(os.path.join(src, 'channel_map.npy'), os.path.join(src, 'channels.rawInd.npy'))
        if spec.notes.get('cluster_probes'):
            np.save(os.path.join(src, 'cluster_probes.npy'), np.zeros(
                int(spec.clusters.max()) + 1 if spec.curated else spec.n_templates, dtype=np.int32))
    from pathlib import Path
    out = os.path.join(d, ['alf', 'alf out (é)', 'alf', 'mouse[07]*?', 'alf'][case['seed'][2] % 5])     # also glob metacharacters in the path
    if case['seed'][2] % 10 == 3:
        os.makedirs(out)
        out = os.path.join(out, 'alf')
    if case['seed'][2] % 10 == 9 and case.get('source') != 'merged':
        out = os.path.join(d, 'src_alf')      # a sibling whose name begins with the source's name
    if case['seed'][2] % 10 == 7 and case.get('source') != 'merged':
        out = os.path.join(d, 'SRC')          # another directory whose name differs from the source's ('src') by letter case only
    if case['seed'][2] % 2:
        out = Path(out)
    curated = spec.curated
    mm_empty = len(set(range(int(spec.clusters.max()) + 1)) - set(spec.clusters.tolist())) > 0
    if which == 'C13':
        nontriv = bool(label) or (curated and mm_empty) or spec.raw is not None
    else:
        nontriv = case.get('source') == 'merged' or opts.get('ties') or opts.get('spikeless', 'none') != 'none' or mm_empty
    desc = {'seed': case['seed'], 'source': case.get('source'), 'opts': opts, 'label': label, 'factor': factor}
    ctx.count(1, key=hkey(tuple(case['seed']), which, case.get('source')), nontrivial=bool(nontriv),
              cell=(case.get('source'), 'curated' if curated else 'uncurated', 'raw_%s' % (spec.raw is not None),
                    'label_%s' % bool(label), 'feat_%s' % opts.get('features')))
    ctx.sample(desc, every=17)
    f0 = {'curated': bool(curated), 'source': case.get('source'), 'spikeless': opts.get('spikeless', 'none')}
    before_load = snapshot(src)          # (round 14) the source is compared from before it is loaded, not only from before convert()
    r = call(load_model, os.path.join(src, 'params.py'))
    if not r.ok:
        ctx.violation('raised', desc, 'load_model(source) raised %r' % r.exc, dict(f0, exc=r.exc_name, stage='load'), tb=r.tb)
        return
    m = r.value
    mon = monitors.CURRENT
    try:
        if m.traces is not None and spec.raw is not None:
            A = spec.traces_truth()
            mon.readers.register(m.traces, lambda A=A: A, label='model.traces')
        if case['seed'][2] % 2:
            from gen.poke import poke
            poke(m, ctx)          # a session's read-only queries and refused requests before the export
        c = EphysAlfCreator(m)
        # refusal of the source directory
        if which == 'C13':
            b0 = snapshot(src)
            link = os.path.join(d, 'link_to_src')
            if not os.path.lexists(link):
                os.symlink(src, link)
            spellings = [src, src + os.sep, os.path.join(d, 'x', '..', os.path.basename(src)), link,
                         os.path.join(src, '.')]
            os.makedirs(os.path.join(d, 'x'), exist_ok=True)
            target = spellings[case['seed'][2] % len(spellings)]
            for n_t, tgt in enumerate((src, target)):
                # (force=True allows overwriting an earlier export; it does not make the source directory a valid target)
                rr = call(c.convert, tgt, label=label, ampfactor=factor, force=bool((case['seed'][2] + n_t) % 2))
                if rr.ok or snapshot(src) != b0:
                    ctx.violation('same_directory_accepted', desc,
                                  'convert() into the source directory spelled %r was %s' % (
                                      tgt.replace(d, '<tmp>'), 'accepted' if rr.ok else 'refused only after writing into it (%r)' % rr.exc),
                                  dict(f0, spelling='plain' if tgt == src else 'alias'))
                    return
        before = snapshot(src)
        before.update(before_load)       # files that were there before the load are compared with what they held then; files the load itself creates, with what it wrote
        if mon.fs:
            mon.fs.watch(src)
        if case['seed'][2] % 2:
            rr = call(c.convert, out, False, label, factor)          # the documented positional order (out_path, force, label, ampfactor)
        else:
            rr = call(c.convert, out, label=label, ampfactor=factor)
        audit = mon.fs.stop() if mon.fs else []
        after = snapshot(src)
        if not rr.ok:
            ctx.violation('raised', desc, 'convert() raised %r' % rr.exc, dict(f0, exc=rr.exc_name, stage='convert'), tb=rr.tb)
            return
        m2 = rr.value
        if case['seed'][2] % 4 == 1 and case.get('source') != 'merged':
            # history: a second conversion of the same model into another directory (the source now holds the
            # subset store written by the first one); the second output is the one judged
            ctx.cell('converted_twice')
            if m2 is not None:
                call(m2.close)
            out = os.path.join(d, 'alf_again')
            rr = call(EphysAlfCreator(m).convert, out, label=label, ampfactor=factor)
            after = snapshot(src)
            if not rr.ok:
                ctx.violation('raised', desc, 'second convert() raised %r' % rr.exc,
                              dict(f0, exc=rr.exc_name, stage='convert_again'), tb=rr.tb)
                return
            m2 = rr.value
        if case['seed'][2] % 4 == 3 and case.get('source') != 'merged':
            # history: the SAME creator object converts a second time, into another directory and with another unit
            # factor; the second output is the one judged
            ctx.cell('same_creator_other_factor')
            if m2 is not None:
                call(m2.close)
            out = os.path.join(d, 'alf_other_factor')
            factor = [2.34375e-06, 4][case['seed'][2] % 8 == 3]
            if label and case['seed'][2] % 8 == 7:
                label = ''             # ... and without the label of the first conversion
            desc = dict(desc, factor=factor, label=label, history='same_creator_other_factor')
            rr = call(c.convert, out, label=label, ampfactor=factor)
            after = snapshot(src)
            if not rr.ok:
                ctx.violation('raised', desc, 'second convert() of the same creator raised %r' % rr.exc,
                              dict(f0, exc=rr.exc_name, stage='convert_again'), tb=rr.tb)
                return
            m2 = rr.value
        if case['seed'][2] % 4 == 2 and case.get('source') != 'merged' and not label:
            # history: export, curation goes on in the source (cluster ids are permuted among themselves), the dataset
            # is loaded again and exported with force=True into the SAME output directory; judged against the
            # dataset as it is now
            ids_ = np.unique(spec.clusters)
            if len(ids_) >= 2:
                ctx.cell('reexport_after_curation')
                if m2 is not None:
                    call(m2.close)
                call(m.close)
                lut = dict(zip(ids_.tolist(), np.roll(ids_, -1).tolist()))
                new = np.array([lut[int(x)] for x in spec.clusters.tolist()], dtype=spec.clusters.dtype)
                spec.spike_clusters = new
                np.save(os.path.join(src, spec._name('spike_clusters.npy')), spec._vec(new))
                # ... and the probe geometry is replaced by a corrected file of the same size that carries an OLDER modification time
                # (restored from an archive with its time stamp, as cp -p / rsync -t do); so does the cluster file
                spec.positions = (spec.positions + np.array([1.0, 2.0])).astype(spec.positions.dtype)
                np.save(os.path.join(src, spec._name('channel_positions.npy')), spec.positions)
                for fn_ in ('channel_positions.npy', 'spike_clusters.npy'):
                    os.utime(os.path.join(src, spec._name(fn_)), (1.0e9, 1.0e9))
                if spec.notes.get('cluster_probes'):      # (keep the harness-written per-cluster table consistent)
                    np.save(os.path.join(src, 'cluster_probes.npy'), np.zeros(
                        int(new.max()) + 1 if spec.curated else spec.n_templates, dtype=np.int32))
                f0 = dict(f0, curated=bool(spec.curated), reexport=True)
                desc = dict(desc, history='reexport_after_curation')
                r = call(load_model, os.path.join(src, 'params.py'))
                if not r.ok:
                    ctx.violation('raised', desc, 'load_model(source) after curation raised %r' % r.exc, dict(f0, exc=r.exc_name, stage='load'), tb=r.tb)
                    return
                m = r.value
                before = snapshot(src)
                rr = call(EphysAlfCreator(m).convert, out, label=label, ampfactor=factor, force=True)
                after = snapshot(src)
                audit = []
                if not rr.ok:
                    ctx.violation('raised', desc, 're-export into the same directory (force=True) raised %r' % rr.exc,
                                  dict(f0, exc=rr.exc_name, stage='convert_again'), tb=rr.tb)
                    return
                m2 = rr.value
        try:
            if which == 'C13':
                _oracle_c13(ctx, desc, f0, spec, src, out, m, m2, label, before, after, audit)
            else:
                from props.c14 import oracle_c14
                oracle_c14(ctx, desc, f0, spec, src, out, m, label, factor, case)
        finally:
            if m2 is not None:
                call(m2.close)
    finally:
        call(m.close)


def alf_files(out, label):
    """{(object, attribute): path} for files of the four ALF objects; also the list of badly named ones."""
    table, bad = {}, []
    for obj in REQUIRED:
        for p in sorted(glob.glob(os.path.join(glob.escape(out), obj + '.*'))):
            parts = os.path.basename(p).split('.')
            if label:
                if len(parts) != 4 or parts[2] != label:
                    bad.append(os.path.basename(p))
                    continue
            elif len(parts) != 3:
                bad.append(os.path.basename(p))
                continue
            table[(obj, parts[1])] = p
    return table, bad


def first_dim(path):
    if path.endswith('.npy'):
        return np.load(path).shape[0]
    with open(path) as f:
        lines = [l for l in f.read().split('\n') if l != '']
    return len(lines) - 1


def _oracle_c13(ctx, desc, f0, spec, src, out, m, m2, label, before, after, audit):
    def V(kind, msg, **kw):
        ctx.violation(kind, desc, msg, dict(f0, **kw))
    ns, nt, nc = spec.n_spikes, spec.n_templates, spec.n_channels
    ncl = int(spec.clusters.max()) + 1 if spec.curated else nt
    counts = {'spikes': ns, 'clusters': ncl, 'templates': nt, 'channels': nc}
    out = str(out)
    table, bad = alf_files(out, label)
    for b in bad:
        V('label_missing', 'file %s does not carry the label %r before its extension' % (b, label), label=bool(label))
    for obj, attrs in REQUIRED.items():
        for a in attrs:
            if (obj, a) not in table:
                V('file_missing', '%s.%s is missing from the output' % (obj, a), file='%s.%s' % (obj, a))
    for (obj, a), p in sorted(table.items()):
        rr = call(first_dim, p)
        if not rr.ok:
            V('file_unreadable', '%s: %r' % (os.path.basename(p), rr.exc), file='%s.%s' % (obj, a))
        elif rr.value != counts[obj]:
            V('table_size', '%s has first dimension %d, expected %d (%s)' % (os.path.basename(p), rr.value, counts[obj], obj),
              file='%s.%s' % (obj, a))
    rate = spec.sample_rate
    samples = spec.spike_samples.astype(np.int64)
    exp_times = spec.notes['hybrid_times'] if spec.notes.get('hybrid_times') is not None else samples / rate
    if ('spikes', 'times') in table:
        dd = same(np.load(table[('spikes', 'times')]), exp_times, dtype=False, rtol=1e-12)      # the source's own clock
        if dd:
            V('units', 'spikes.times is not in seconds: ' + dd, file='spikes.times')
    if ('spikes', 'samples') in table:
        dd = same(np.load(table[('spikes', 'samples')]), samples, dtype=False)
        if dd:
            V('units', 'spikes.samples is not in samples: ' + dd, file='spikes.samples')
    if ('clusters', 'uuids') in table:
        with open(table[('clusters', 'uuids')]) as f:
            lines = [l for l in f.read().split('\n') if l != ''][1:]
        if len(set(lines)) != len(lines) or any(len(l) < 8 for l in lines):
            V('uuids', 'cluster identifiers are not unique / malformed: %r' % lines[:4], file='clusters.uuids')
    # reload
    if m2 is None:
        V('reload', 'convert() returned no model although params.py exists in the source')
    else:
        checks = [('spike_times', m2.spike_times, exp_times, dict(rtol=1e-12)),
                  ('spike_samples', m2.spike_samples, samples, {}),
                  ('spike_clusters', m2.spike_clusters, spec.clusters, {}),
                  ('spike_templates', m2.spike_templates, spec.spike_templates, {}),
                  ('channel_positions', m2.channel_positions, spec.positions, {})]
        if spec.probes is None or len(set(spec.probes.tolist())) == 1:
            checks.append(('channel_mapping', m2.channel_mapping, spec.channel_map, {}))
        for name, got, exp, kw in checks:
            dd = same(got, exp, dtype=False, **kw)
            if dd:
                V('reload', 'reloaded model.%s differs from the source: %s' % (name, dd), attr=name)
        # the export stores physical (unwhitened) waveforms: the loaded export serves a template as stored, whichever way it is asked
        for t_ in range(min(3, int(getattr(m2, 'n_templates', 0) or 0)) if not spec.notes.get('template_scaling') else 0):      # (a display factor in params.py applies to one form only)
            ra_, rb_ = call(m2.get_template, t_), call(m2.get_template, t_, unwhiten=False)
            if ra_.ok and rb_.ok and ra_.value is not None and rb_.value is not None:
                ctx.mon('reloaded_template_accessors')
                ta_, tb_ = np.asarray(ra_.value.template, dtype=np.float64), np.asarray(rb_.value.template, dtype=np.float64)
                if ta_.shape != tb_.shape or not np.allclose(ta_, tb_, rtol=1e-5, atol=1e-6 * max(1e-300, float(np.abs(tb_).max()) if tb_.size else 1), equal_nan=True):
                    V('reload', 'the loaded export whitens / unwhitens its stored template %d (the two accessor forms differ)' % t_, attr='get_template')
                    break
    # exported files are files of their own (not hard links to source files)
    for fn in sorted(os.listdir(out)):
        fp = os.path.join(out, fn)
        if os.path.isfile(fp) and not os.path.islink(fp) and os.stat(fp).st_nlink > 1:
            V('output_is_hard_link', 'exported file %s is a hard link (st_nlink=%d)' % (fn, os.stat(fp).st_nlink), file=fn)
            break
    # source directory effects
    created, deleted, changed = snapshot_diff(before, after)
    for fn in changed:
        if fn.startswith('_phy_spikes_subset.'):
            continue
        w = [e for e in audit if e[1].endswith(fn)]
        V('source_modified', 'pre-existing source file %s changed (%s)' % (fn, w[-1:]), file=fn)
    for fn in deleted:
        if fn != 'temp_wh.dat':
            V('source_modified', 'source file %s deleted' % fn, file=fn)
    for fn in created:
        if not fn.startswith('_phy_spikes_subset.'):
            V('source_modified', 'unexpected file %s created in the source directory' % fn, file=fn)
    if 'temp_wh.dat' in before and 'temp_wh.dat' in after:
        ctx.note('temp_wh_kept')
