"""C17 - Spike selection honours its cluster, chunk, subset and count constraints."""
import os
import shutil

import numpy as np

from vmon.core import call, hkey, scratch_dir

ID = 'C17'
LEVEL = 'exploration'
MONITORS = ('M2', 'M6')
ANCHORS = ['phylib.io.model:TemplateModel.save_spikes_subset_waveforms', 'phylib.io.array:SpikeSelector.__init__', 'phylib.io.array:_times_in_chunks',
           'phylib.io.array:SpikeSelector.__call__', 'phylib.io.array:_flatten_per_cluster']
RULE = ('Each case: random spike times (many exactly on chunk bounds) and cluster labels, a chunk grid of '
        '2..9 bounds (also not starting at 0; integer or fractional float bounds with int32/int64/uint64/float32/float64 times), n_chunks_kept in 1..m+1, requested count in {None,0,1,3,100}, '
        'a requested cluster list incl. empty / unknown ids, subset_chunks on/off, subset_spikes on/off; '
        'the real SpikeSelector is called under 5 np.random seeds and every output is judged by a '
        'constraint checker whose eligibility is computed by loops from the definition b_i <= t < '
        'b_{i+1}. chunks_kept is checked against the grid (whole intervals, constant stride from the '
        'first, at most the requested number). non-trivial = distinct cases with a spike on a bound and a '
        'stride that does not divide the chunk count, or with a count smaller than an eligible group. Histories on one selector: a second, different query; a query after two spikes swapped clusters behind the callback (cluster sizes unchanged). Subsets are also given with repeated ids and unsorted. Model route: TemplateModel.save_spikes_subset_waveforms on generated datasets whose recordings span 8-60 chunks (1-3 files); the saved spike ids are judged against the 20 kept chunks of the reader\'s grid and the per-template count.')
RULE += ' Times / bounds / subsets also read-only; subsets of dtype uint64 / int32 / uint32.'
RULE += ' Round 5: requests naming a cluster twice; positional subset_chunks / subset_spikes.'
RULE += ' Round 6: unsorted spike-time vectors; raw files shorter than the spike train in the model route.'
RULE += ' Round 7: n_chunks_kept as NumPy integers of every width on grids of 130-300 chunks; model route with unreferenced template ids and a small export before the judged larger one.'
RULE += ' Round 8: one subset buffer refilled in place between three requests on one selector.'
RULE += ' Round 9: counts of -1 / -3; chunk grids offset by 3e6 / 9e7.'
RULE += ' Round 12: the caller overwrites an answer and makes the same request again.'
RULE += ' Round 13: a cluster named twice before the others.'
EXHAUSTIVE = {'quick': False, 'thorough': False}
FLOORS = {'quick': {'evaluations': 60000, 'distinct_nontrivial': 3000,
                    'monitors': {'M2._flatten_per_cluster.checked': 10000, 'model_subset_judged': 30}},
          'thorough': {'evaluations': 1000000, 'distinct_nontrivial': 50000,
                       'monitors': {'M2._flatten_per_cluster.checked': 500000, 'model_subset_judged': 300}}}
NSHARDS = 16


def plan(tier, seed):
    n = 15000 if tier == 'quick' else 300000
    return [{'shard': i, 'n': NSHARDS, 'seed': seed, 'cases': n // NSHARDS + 1} for i in range(NSHARDS)]


def run_shard(desc, ctx):
    for i in range(desc['cases']):
        run_case({'seed': [desc['seed'], desc['shard'], i]}, ctx)
    for i in range(max(3, desc['cases'] // 400)):
        run_case({'kind': 'model', 'seed': [desc['seed'], desc['shard'], i, 17]}, ctx)


def gen(seed):
    rng = np.random.default_rng(seed)
    m = int(rng.integers(1, 9))                      # number of chunks
    if rng.random() < 0.02:
        m = int(rng.choice([130, 250, 260, 300]))      # long recordings: hundreds of chunks
    start = int(rng.choice([0, 0, 0, 3, 10]))
    widths = rng.integers(1, 12, size=m)
    bounds = np.r_[start, start + np.cumsum(widths)].astype(np.int64)
    if rng.random() < 0.3:
        bounds = bounds.astype(np.float64) + np.r_[0, np.sort(rng.choice([0.25, 0.5, 0.75, 0.3], size=m))] * 0.9   # fractional grid (seconds)
    n = int(rng.integers(1, 60)) if rng.random() < 0.98 else int(rng.integers(1500, 4000))   # occasionally thousands of spikes
    on_bound = rng.choice(bounds, size=n)
    anywhere = rng.integers(bounds[0], bounds[-1], size=n)
    t = np.where(rng.random(n) < 0.4, on_bound, anywhere)
    # the last bound itself is outside every chunk; keep a few such spikes too
    t = np.sort(t)
    if rng.random() < 0.15:
        t = t[rng.permutation(len(t))]          # the statement quantifies over all spike-time vectors: also unsorted ones
    t = t.astype([np.int64, np.uint64, np.float64, np.float32, np.int32][int(rng.integers(0, 5))]) if bounds.dtype.kind == 'f' \
        else t.astype([np.int64, np.uint64, np.float64][int(rng.integers(0, 3))])
    k = int(rng.integers(1, 5))
    ids = np.array([1, 4, 5, 9])[:k]
    clusters = rng.choice(ids, size=n).astype(np.int64)
    kept = int(rng.integers(1, m + 2)) if m < 100 else int(rng.choice([20, 7, 100]))
    count = [None, 0, 1, 3, 100][int(rng.integers(0, 5))]
    req = [[], [int(ids[0])], ids.tolist(), ids[::-1].tolist() + [77], [77],
           ids.tolist() + [int(ids[0])], [int(ids[-1]), 77, int(ids[-1])]][int(rng.integers(0, 7))]      # also ids named twice
    if seed[2] % 7 == 3:
        req = [int(ids[0]), int(ids[0])] + ids[1:].tolist()           # a cluster named twice BEFORE the others
    subset_chunks = bool(rng.integers(0, 2))
    subset_spikes = None
    if rng.random() < 0.4:
        subset_spikes = np.sort(rng.permutation(n)[:int(rng.integers(0, n + 1))]).astype(np.int64)
        if rng.random() < 0.4 and subset_spikes.size:
            # a subset given as the concatenation of overlapping id lists: repeated ids, not sorted
            subset_spikes = np.r_[subset_spikes, rng.choice(subset_spikes, size=int(rng.integers(1, 4)))]
            if rng.random() < 0.5:
                subset_spikes = rng.permutation(subset_spikes)
    if seed[2] % 13 == 6:
        count = [-1, -3][seed[2] % 2]           # a count that is not positive means no limit
    if seed[2] % 11 == 5:
        # a grid far from the origin compared with the width of its chunks (samples late in a long session)
        off = [3000000, 90000000][seed[2] % 2]
        bounds = bounds + off
        t = (t + t.dtype.type(off)).astype(t.dtype)
    return bounds, t, clusters, kept, count, req, subset_chunks, subset_spikes


def _model_case(case, ctx):
    """The use of the selector by TemplateModel.save_spikes_subset_waveforms (20 kept chunks): recordings of 8-60
    chunks, judged on the spike ids the model saves."""
    from phylib.io.model import load_model
    from gen.dataset import random_spec
    rng = np.random.default_rng(case['seed'])
    rate = [0.05, 0.1, 0.025][int(rng.integers(0, 3))]          # 600 s chunks of 30 / 60 / 15 samples
    clen = int(round(600 * rate))
    n_chunks = int(rng.integers(8, 61))
    n_samples = clen * n_chunks - int(rng.integers(0, clen))
    opts = dict(nc=int(rng.integers(3, 7)), nt=int(rng.integers(2, 6)), ns=int(rng.integers(40, 400)), rate=rate,
                raw=['int16', 'float32'][int(rng.integers(0, 2))], raw_parts=int(rng.choice([1, 1, 2, 3])),
                n_samples=n_samples, ncdat_extra=0, features='none', clusters=['same', 'curated'][int(rng.integers(0, 2))],
                spikeless=['none', 'middle', 'first', 'last'][int(rng.integers(0, 4))])         # template ids that no spike refers to
    spec = random_spec(rng, **opts)
    if case['seed'][2] % 3 == 1 and opts['raw_parts'] == 1:
        # the raw file ends before the last spikes (accepted at load with a warning): they lie in no chunk
        cut = int(spec.spike_samples[len(spec.spike_samples) * 3 // 4])
        if cut > 2 * clen:
            spec.raw = spec.raw[:cut]
    k = int(rng.choice([1, 2, 5, 1000]))
    desc = {'kind': 'model', 'seed': case['seed'], 'opts': opts, 'max_n_spikes_per_template': k}
    d = scratch_dir('c17_')
    try:
        r = call(load_model, spec.write(d))
        if not r.ok:
            ctx.violation('raised', desc, 'load_model raised %r' % r.exc, {'route': 'model'}, tb=r.tb)
            return
        m = r.value
        try:
            bounds = [int(b) for b in np.asarray(m.traces.chunk_bounds).tolist()]
            grid = list(zip(bounds[:-1], bounds[1:]))
            stride = max(1, -(-len(grid) // 20))
            kept = grid[::stride]
            if case['seed'][2] % 2 == 0 and k > 1:
                # history: an earlier export with a smaller count on the same model; the later, larger one is judged
                call(m.save_spikes_subset_waveforms, max_n_spikes_per_template=1, max_n_channels=2)
                ctx.mon('model_subset_reexported')
            r = call(m.save_spikes_subset_waveforms, max_n_spikes_per_template=k, max_n_channels=2)
            if not r.ok:
                ctx.violation('raised', desc, 'save_spikes_subset_waveforms raised %r' % r.exc, {'route': 'model'}, tb=r.tb)
                return
            ids = np.load(os.path.join(d, '_phy_spikes_subset.spikes.npy'))
            samples = spec.spike_samples.astype(np.int64)
            st = spec.spike_templates.astype(np.int64)
            ctx.count(1, key=hkey('model', tuple(case['seed'])), nontrivial=len(grid) > 20,
                      cell=('model', 'chunks_gt20' if len(grid) > 20 else 'chunks_le20', 'parts%d' % opts['raw_parts']))
            ctx.mon('model_subset_judged')
            msg = None
            if ids.ndim != 1 or (ids.size > 1 and (np.diff(ids) <= 0).any()):
                msg = 'saved spike ids are not strictly increasing'
            else:
                elig = [i for i in range(len(samples)) if any(a <= samples[i] < b for a, b in kept)]
                out = ids.tolist()
                extra = [i for i in out if i not in set(elig)]
                if extra:
                    msg = '%d saved spikes (e.g. %r at samples %r) lie outside the kept chunks %r...' % (
                        len(extra), extra[:5], samples[extra[:5]].tolist(), kept[:4])
                else:
                    for t_ in np.unique(st):
                        e = [i for i in elig if st[i] == t_]
                        got = [i for i in out if st[i] == t_]
                        if (len(e) <= k and got != e) or (len(e) > k and len(got) != k):
                            msg = 'template %d: %d eligible spikes, count %d, %d saved' % (t_, len(e), k, len(got))
                            break
            if msg:
                ctx.violation('bad_selection', dict(desc, chunk_bounds=bounds), msg, {'route': 'model', 'gt20': len(grid) > 20})
        finally:
            call(m.close)
    finally:
        shutil.rmtree(d, ignore_errors=True)


def run_case(case, ctx):
    if case.get('kind') == 'model':
        return _model_case(case, ctx)
    from phylib.io.array import SpikeSelector, _spikes_in_clusters
    bounds, t, clusters, kept, count, req, subset_chunks, subset_spikes = gen(case['seed'])
    m = len(bounds) - 1
    feats = {'subset_chunks': subset_chunks}
    desc = {'bounds': bounds.tolist(), 'times': t.tolist(), 'tdtype': t.dtype.name, 'clusters': clusters.tolist(),
            'n_chunks_kept': kept, 'count': count, 'requested': req, 'subset_chunks': subset_chunks,
            'subset_spikes': None if subset_spikes is None else subset_spikes.tolist(), 'seed': case['seed']}
    if case['seed'][-1] % 3 == 1:
        t.flags.writeable = False                 # times as np.load(mmap_mode='r') hands them out
        bounds.flags.writeable = False
        if subset_spikes is not None:
            subset_spikes.flags.writeable = False
    if case['seed'][-1] % 5 == 2 and subset_spikes is not None:
        subset_spikes = subset_spikes.astype([np.uint64, np.int32, np.uint32][case['seed'][-1] % 3])     # ids of any integer dtype
    # the caller keeps ONE index array per cluster (as TemplateModel does); it must never be altered
    spc = {int(c): _spikes_in_clusters(clusters, [c]) for c in np.unique(clusters)}
    spc0 = {c: v.copy() for c, v in spc.items()}
    empty = np.array([], dtype=np.int64)
    # (the number of kept chunks as a Python int or a NumPy integer of any width that holds it)
    kept_arg = [int, np.int64, np.uint8, np.int16, np.int8, np.uint16][case['seed'][-1] % 6]
    kept_arg = kept_arg(kept) if kept_arg is int or kept <= np.iinfo(kept_arg).max else int(kept)
    r = call(SpikeSelector, get_spikes_per_cluster=lambda c: spc.get(int(c), empty),
             spike_times=t, chunk_bounds=bounds, n_chunks_kept=kept_arg)
    if not r.ok:
        ctx.count(1)
        ctx.violation('raised', desc, 'SpikeSelector() raised %r' % r.exc, feats, tb=r.tb)
        return
    sel = r.value
    # ---- chunks_kept ---------------------------------------------------------------------
    ck = np.asarray(sel.chunks_kept).tolist()
    pairs = list(zip(ck[0::2], ck[1::2]))
    grid = list(zip(bounds[:-1].tolist(), bounds[1:].tolist()))
    msg = None
    if len(ck) % 2 or not pairs:
        msg = 'chunks_kept %r is not a non-empty list of intervals' % ck
    elif any(p not in grid for p in pairs):
        msg = 'chunks_kept %r contains an interval that is not a whole grid chunk' % ck
    elif len(pairs) > kept:
        msg = '%d chunks kept > %d requested' % (len(pairs), kept)
    else:
        pos = [grid.index(p) for p in pairs]
        if pos[0] != 0:
            msg = 'first kept chunk is not the first chunk'
        elif len(pos) >= 2 and len(set(np.diff(pos).tolist())) != 1:
            msg = 'kept chunks %r not at a constant stride' % pos
        elif len(pos) >= 2 and pos[1] - pos[0] < 1:
            msg = 'stride < 1'
    if msg:
        ctx.violation('bad_chunks_kept', desc, msg, feats)
        pairs = [p for p in pairs if p in grid]
    stride_div = (m % max(1, -(-m // kept)) != 0)
    on_b = bool(np.isin(t, bounds).any())
    # ---- eligibility by definition ---------------------------------------------------------
    tl = [x.item() for x in t]        # exact Python numbers (a float32 scalar compared with a Python float would be compared in float32)

    def in_kept(x):
        x = x.item() if hasattr(x, 'item') else x
        return any(a <= x < b for (a, b) in pairs)
    elig = {}
    for c in req:
        idx = [i for i in range(len(t)) if clusters[i] == c]
        if subset_chunks:
            idx = [i for i in idx if in_kept(t[i])]
        if subset_spikes is not None:
            ss = set(subset_spikes.tolist())
            idx = [i for i in idx if i in ss]
        elig[c] = idx
    limited = count is not None and count > 0 and any(len(v) > count for v in elig.values())
    for rs in range(5):
        ctx.count(1, key=hkey(tuple(case['seed'])), nontrivial=(on_b and stride_div) or limited,
                  cell=('m%d' % m, 'count_%s' % count, 'sc%d' % subset_chunks, 'ss%d' % (subset_spikes is not None)))
        np.random.seed(1000 * rs + 17)
        req_arg = [req, tuple(req), np.array(req, dtype=np.int64)][rs % 3]      # list / tuple / array of cluster ids
        if rs % 2:
            rr = call(sel, count, req_arg, subset_chunks, subset_spikes)            # the documented positional order
        else:
            rr = call(sel, count, req_arg, subset_chunks=subset_chunks, subset_spikes=subset_spikes)
        if not rr.ok:
            ctx.violation('raised', desc, 'selector() raised %r' % rr.exc, feats, tb=rr.tb)
            break
        out = np.asarray(rr.value)
        msg = None
        if out.ndim != 1 or (out.size and out.dtype.kind not in 'iu'):
            msg = 'output is not a 1-D integer array: %r' % (out,)
        elif (np.diff(out) <= 0).any():
            msg = 'output %r not strictly increasing' % out.tolist()
        else:
            o = out.tolist()
            allowed = set(i for v in elig.values() for i in v)
            extra = [i for i in o if i not in allowed]
            if extra:
                msg = 'spikes %r violate the cluster/chunk/subset constraints' % extra[:10]
            else:
                for c in set(req):
                    got = [i for i in o if clusters[i] == c]
                    e = elig[c]
                    if count is None or count <= 0 or len(e) <= count:
                        if got != e:
                            msg = 'cluster %r: %d eligible spikes %r but %r returned' % (c, len(e), e[:12], got[:12])
                    elif len(got) != count:
                        msg = 'cluster %r: %d eligible > count %d but %d returned' % (c, len(e), count, len(got))
        if msg:
            ctx.violation('bad_selection', dict(desc, np_seed=1000 * rs + 17), msg, feats)
            break
    # history: the caller overwrites the array it was handed (sorting it by something else, masking ...) and asks again: every
    # answer is the caller's own array
    if req and not subset_chunks and subset_spikes is None:
        ra = call(sel, None, req)
        if ra.ok and isinstance(ra.value, np.ndarray) and ra.value.flags.writeable and ra.value.size:
            first = np.asarray(ra.value).copy()
            ra.value[...] = 0
            rb = call(sel, None, req)
            ctx.mon('result_overwritten_then_asked_again')
            if not rb.ok or not np.array_equal(np.asarray(rb.value), first):
                ctx.violation('bad_selection', dict(desc, overwritten_result=True), 'the same request after the caller overwrote the first answer: %r, before %r' % (
                    rb.exc if not rb.ok else np.asarray(rb.value).tolist()[:20], first.tolist()[:20]), dict(feats, overwritten_result=True), tb=rb.tb)
            for c_, v_ in spc.items():          # (undo what an aliased answer would have let through)
                if not np.array_equal(v_, spc0[c_]):
                    v_[...] = spc0[c_]
    # history: the same selector instance answers a second, different query correctly (no state kept)
    req2 = sorted(set(clusters.tolist()))[:2]
    count2 = 2 if count != 2 else 1
    np.random.seed(5)
    rr = call(sel, count2, req2, subset_chunks=not subset_chunks, subset_spikes=None)
    ctx.count(1, cell=('second_query',))
    if not rr.ok:
        ctx.violation('raised', desc, 'second query on the same selector raised %r' % rr.exc, dict(feats, second_query=True), tb=rr.tb)
    else:
        out = np.asarray(rr.value).tolist()
        msg = None
        for c in req2:
            e = [i for i in range(len(t)) if clusters[i] == c and (subset_chunks or in_kept(t[i]))]
            got = [i for i in out if clusters[i] == c]
            if (len(e) <= count2 and got != e) or (len(e) > count2 and (len(got) != count2 or not set(got) <= set(e))):
                msg = 'second query: cluster %r eligible %r returned %r (count %d)' % (c, e[:12], got[:12], count2)
        if sorted(out) != out or len(set(out)) != len(out) or any(clusters[i] not in req2 for i in out):
            msg = 'second query: output %r not increasing / outside the requested clusters' % out[:20]
        if msg:
            ctx.violation('bad_selection', desc, msg, dict(feats, second_query=True))
    unchanged_inputs = all(np.array_equal(spc[c], spc0[c]) for c in spc)
    # history: the clustering behind the callback changes (two spikes of different clusters swap labels, so every
    # cluster keeps its size); the same selector must answer for the clustering as it is NOW
    present = sorted(set(clusters.tolist()))
    if len(present) >= 2:
        call(sel, None, present, subset_chunks=True)        # (fills whatever the selector might remember)
        i1 = int(np.nonzero(clusters == present[0])[0][0])
        i2 = int(np.nonzero(clusters == present[1])[0][-1])
        clusters3 = clusters.copy()
        clusters3[i1], clusters3[i2] = clusters[i2], clusters[i1]
        new = {int(c): _spikes_in_clusters(clusters3, [c]) for c in np.unique(clusters3)}
        spc.clear()
        spc.update(new)
        ctx.count(1, cell=('query_after_reassignment',))
        for sc3 in (True, False):
            rr = call(sel, None, present[:1], subset_chunks=sc3)
            if not rr.ok:
                ctx.violation('raised', desc, 'query after a reassignment raised %r' % rr.exc, dict(feats, after_reassignment=True), tb=rr.tb)
                break
            e = [i for i in range(len(t)) if clusters3[i] == present[0] and (not sc3 or in_kept(t[i]))]
            if np.asarray(rr.value).tolist() != e:
                ctx.violation('bad_selection', dict(desc, swapped=[i1, i2]), 'after spikes %d and %d swapped clusters: selector returned %r, '
                              'eligible now %r (subset_chunks=%r)' % (i1, i2, np.asarray(rr.value).tolist()[:20], e[:20], sc3),
                              dict(feats, after_reassignment=True))
                break
    # history: the caller keeps ONE subset buffer and refills it in place between two requests; each request must
    # honour the subset as it is when the request is made
    if len(t) >= 4:
        buf = np.arange(len(t) // 2, dtype=np.int64)
        allc = sorted(set(clusters.tolist()))
        ctx.count(1, cell=('subset_buffer_refilled',))
        for step in range(3):
            rr = call(sel, None, allc, subset_spikes=buf)
            e = sorted(set(buf.tolist()))
            if not rr.ok:
                ctx.violation('raised', desc, 'request with a reused subset buffer raised %r' % rr.exc, dict(feats, subset_buffer=True), tb=rr.tb)
                break
            if np.asarray(rr.value).tolist() != e:
                ctx.violation('bad_selection', dict(desc, subset_buffer=buf.tolist(), step=step), 'request %d with the caller\'s subset buffer (refilled in place): '
                              'returned %r, the subset holds %r' % (step, np.asarray(rr.value).tolist()[:20], e[:20]), dict(feats, subset_buffer=True))
                break
            buf[:] = (buf + len(buf) // 2 + 1) % len(t) if step == 0 else buf[::-1].copy()
    if not unchanged_inputs:
        ctx.violation('inputs_modified', desc, 'the selector altered the per-cluster spike arrays of the caller', feats)
    ctx.sample({k: desc[k] for k in ('bounds', 'times', 'n_chunks_kept', 'count', 'requested', 'subset_chunks')}, every=701)
