"""C16 - Chunkings tile the sample axis exactly once."""
import itertools
import os
import shutil

import numpy as np

from gen import layouts as L
from vmon.core import call, same, hkey, scratch_dir
from vmon import monitors

ID = 'C16'
LEVEL = 'exploration'
MONITORS = ('M1', 'M2', 'M6')
ANCHORS = ['phylib.io.array:chunk_bounds', 'phylib.io.array:data_chunk', 'phylib.io.array:excerpts',
           'phylib.io.array:_excerpt_step', 'phylib.io.array:get_excerpts',
           'phylib.io.traces:_get_chunk_bounds', 'phylib.io.traces:BaseEphysReader.iter_chunks',
           'phylib.io.traces:MtscompEphysReader.iter_chunks']
RULE = ('EVERY (length n, chunk size, overlap < chunk) with n <= N, chunk <= 16 (thorough: chunk <= N): the tuples yielded by '
        'chunk_bounds are replayed on arange(n) through data_chunk (plus random lengths up to 10^7 judged by interval arithmetic) (kept parts must concatenate to the '
        'data, each kept part inside its chunk, chunk length <= chunk size); EVERY (n, n_excerpts 2..6, '
        'size 1..10) for excerpts and n_excerpts 0..6 for get_excerpts; EVERY list of <= 4 file sizes '
        '<= 6 x chunk <= 8 for _get_chunk_bounds (interval-tiling oracle + M2 contract), with real '
        'multi-file flat readers (header offsets 0/4/7/16 bytes) for all lists of <= 3 files (chunk_bounds, iter_chunks, data per '
        'interval vs ground truth); compressed readers over chunk lengths x decoder threads 1..4 x '
        'cache on/off x 3 repetitions (also with more decoder threads than CPUs); flat readers whose 600 s chunk is not a whole number of samples (7.4, 2.3, 12.49, x.5 ...: chunk length = rounded value) over recordings of many chunks, and whose parts share one base name in different folders. non-trivial = distinct triples with n mod (chunk-overlap) != 0 '
        'or n < chunk or odd overlap; excerpt triples with n < k*size or (n-size) mod (k-1) != 0; file '
        'lists containing a file shorter than the chunk; compressed layouts with >= 2 batches.')
RULE += ' Round 6: part files ending in an incomplete row; a .cbin recompressed under the same name and reopened by its path; for chunk lengths of exactly x.5 samples either rounding is accepted.'
RULE += " Round 7: a multi-file reader wrapped as an array by a second reader with a shorter chunk length; a new array reader after the caller extended an earlier reader's bounds list."
RULE += ' Round 8: sample axes of 2**53 .. 2**62 (interval arithmetic only); with_overlap as bool / int / NumPy bool, by keyword or position; a compressed file with a damaged chunk (the pass may raise; if it returns, it must tile).'
RULE += ' Round 9: compressed files whose chunks have unequal lengths.'
RULE += ' Round 10: part files without a complete row (zero samples: in the middle, at the end, twice in a row); n_channels_dat together with another n_channels; arrays of shape (n, 0).'
RULE += ' Round 11: get_excerpts on 2-D and 3-D data (the same rows as for 1-D data).'
RULE += ' Round 12: the synthetic RandomEphysReader at and around whole numbers of chunks.'
RULE += " Round 13: derived readers' chunk grids; the last flat file growing after the reader was opened; two compressed recordings sharing a name prefix in one folder."
EXHAUSTIVE = {'quick': True, 'thorough': True}
EXHAUSTIVE_SCOPE = {'quick': 'n <= 25 (see rule)', 'thorough': 'n <= 40 (see rule)'}
FLOORS = {'quick': {'evaluations': 20000, 'distinct_nontrivial': 2000,
                    'monitors': {'M2._get_chunk_bounds.checked': 1000, 'M1.checked': 1000}},
          'thorough': {'evaluations': 45000, 'distinct_nontrivial': 5000,
                       'monitors': {'M2._get_chunk_bounds.checked': 1000, 'M1.checked': 1000}}}
ASSUMPTIONS = ['two simultaneous passes over one reader are advanced like zip() does (the round in which the first pass ends is not started for the second): the passes of a compressed reader share one decoder pool and the unchanged code cannot shut it down twice',
               'a reader may refuse a recording without samples; if it accepts one, its bounds are [0] and it yields no interval',
               'when a flat reader is given both n_channels_dat and n_channels, the sample count is that of the file as n_channels_dat describes it (phy: the number of channels in the raw file)']
NSHARDS = 16


def plan(tier, seed):
    N = 25 if tier == 'quick' else 40
    return [{'shard': i, 'n': NSHARDS, 'N': N, 'seed': seed, 'tier': tier} for i in range(NSHARDS)]


def run_shard(desc, ctx):
    N, sh, ns = desc['N'], desc['shard'], desc['n']
    idx = 0
    CS = 17 if desc['tier'] == 'quick' else N + 1
    for n in range(0, N + 1):
        for cs in range(1, CS):
            for ov in range(0, cs):
                idx += 1
                if idx % ns == sh:
                    run_case({'kind': 'chunk_bounds', 'n': n, 'chunk': cs, 'overlap': ov}, ctx)
    for n in range(0, N + 1):
        for k in range(0, 7 if desc['tier'] == 'quick' else 10):
            for size in range(1, 11 if desc['tier'] == 'quick' else 21):
                idx += 1
                if idx % ns == sh:
                    run_case({'kind': 'excerpts', 'n': n, 'k': k, 'size': size}, ctx)
    for nf in range(1, 5):
        for sizes in itertools.product(range(1, 7), repeat=nf):
            idx += 1
            if idx % ns != sh:
                continue
            for cs in range(1, 9):
                run_case({'kind': 'file_bounds', 'sizes': list(sizes), 'chunk': cs}, ctx)
            if nf <= 3:
                run_case({'kind': 'flat_reader', 'sizes': list(sizes), 'chunks': list(range(1, 9)), 'same_name': idx % 3 == 0, 'stray': idx % 4 == 1}, ctx)
    # chunk durations that are not a whole number of samples (calibrated sampling rates): the chunk length is the
    # rounded number of samples; recordings of many chunks, parts with equal base names in different folders
    fr = [[50, 31, 7], [88], [23, 23], [7, 64, 1, 9], [150]]
    for i_f, sizes in enumerate(fr):
        idx += 1
        if idx % ns == sh:
            run_case({'kind': 'flat_reader', 'sizes': sizes, 'chunks': [7.4, 2.3, 5.2, 3.45, 12.49, 6.5, 7.5, 1.2],
                      'same_name': i_f % 2 == 0}, ctx)
    # part files that hold no complete row (only stray bytes): zero samples, in the middle, at the end, twice in a row
    for sizes in ([4, 4, 0, 4, 1], [3, 0, 0, 2], [5, 0], [2, 0, 7, 0, 1]):
        idx += 1
        if idx % ns == sh:
            run_case({'kind': 'flat_reader', 'sizes': sizes, 'chunks': [1, 2, 3, 4, 5], 'stray': True}, ctx)
    # large random lengths, judged by interval arithmetic (no data array)
    rng = np.random.default_rng([desc['seed'], sh, 16])
    for _ in range(300 if desc['tier'] == 'quick' else 20000):
        n = int(10 ** rng.uniform(2, 7))
        cs = int(10 ** rng.uniform(0, np.log10(n) + 0.3)) + 1
        ov = int(rng.integers(0, cs))
        run_case({'kind': 'chunk_bounds_big', 'n': n, 'chunk': cs, 'overlap': ov}, ctx)
    # sample axes beyond 2**53 (exact integer arithmetic is needed)
    for j_, (n_, cs_, ov_) in enumerate([(2 ** 60 + 1, 2 ** 58, 0), (2 ** 53 + 3, 2 ** 51 + 1, 1), (2 ** 62 + 5, 2 ** 59, 2 ** 20 + 1), (2 ** 55, 2 ** 53 + 7, 0)]):
        if j_ % ns == sh % 4:
            run_case({'kind': 'chunk_bounds_big', 'n': n_, 'chunk': cs_, 'overlap': ov_}, ctx)
    # a compressed file with a damaged chunk: the iterator may raise, but it must not silently skip part of the recording
    if sh in (2, 6):
        run_case({'kind': 'cbin_damaged', 'n': 100, 'chunk_len': 10, 'damaged': [4, 7][sh == 6], 'threads': 2}, ctx)
    # compressed readers
    ncb = [5, 8, 13] if desc['tier'] == 'quick' else [1, 2, 5, 8, 13, 21, 34]
    for n in ncb:
        for cl in sorted(set([1, 2, 3, 5, max(1, n - 1), n, n + 3])):
            idx += 1
            if idx % ns != sh:
                continue
            run_case({'kind': 'cbin_reader', 'n': n, 'chunk_len': cl, 'threads': [1, 2, 3, 4]}, ctx)
    # compressed files whose chunks have unequal lengths (the .ch file lists explicit bounds)
    for lens in ([5, 10, 10, 10], [3, 1, 4, 1, 5, 9, 2, 6], [10, 10, 3, 10], [1, 20]):
        idx += 1
        if idx % ns == sh:
            run_case({'kind': 'cbin_reader', 'n': sum(lens), 'chunk_len': max(lens), 'lens': lens, 'threads': [1, 2, 3]}, ctx)
    # a recording without any sample (in-memory array): bounds [0], no interval
    idx += 1
    if idx % ns == sh:
        run_case({'kind': 'empty_reader'}, ctx)
    # more decoder threads than CPUs, more chunks than threads
    for n, cl in ((40, 1), (75, 2)):
        idx += 1
        if idx % ns == sh:
            run_case({'kind': 'cbin_reader', 'n': n, 'chunk_len': cl, 'threads': [(os.cpu_count() or 1) + 3, 2 * (os.cpu_count() or 1) + 1]}, ctx)


# ------------------------------------------------------------------------------------------

def _tiles(intervals, n):
    """Do the non-empty intervals tile [0, n) in order? Return None or a message."""
    pos = 0
    for (a, b) in intervals:
        if b < a:
            return 'interval (%d, %d) is reversed' % (a, b)
        if a == b:
            continue
        if a != pos:
            return 'interval (%d, %d) starts at %d, expected %d' % (a, b, a, pos)
        pos = b
    if pos != n:
        return 'intervals end at %d, expected %d' % (pos, n)
    return None


def run_case(case, ctx):
    kind = case['kind']
    globals()['_case_' + kind](case, ctx)


def _case_chunk_bounds(case, ctx):
    from phylib.io.array import chunk_bounds, data_chunk
    n, cs, ov = case['n'], case['chunk'], case['overlap']
    nontriv = n > 0 and ((n % (cs - ov) != 0) or n < cs or ov % 2 == 1)
    ctx.count(1, key=hkey('cb', n, cs, ov), nontrivial=nontriv, cell=('chunk_bounds', 'ov%d' % (ov % 2)))
    ctx.sample(case, every=2003)
    npint = (n + cs + ov) % 3 == 0      # NumPy integer arguments are as good as Python ints
    r = call(lambda: list(chunk_bounds(np.int64(n), np.int32(cs), overlap=np.int64(ov)) if npint else chunk_bounds(n, cs, overlap=ov)))
    if not r.ok:
        ctx.violation('raised', case, 'chunk_bounds raised %r' % r.exc, tb=r.tb)
        return
    data = np.arange(n)
    kept, pos = [], 0
    for c in r.value:
        if len(c) != 4:
            ctx.violation('malformed', case, 'yielded %r' % (c,))
            return
        s0, s1, k0, k1 = [int(x) for x in c]
        # (the flag as bool, int or NumPy bool, by keyword or position)
        flag_t, flag_f = [(True, False), (1, 0), (np.True_, np.False_)][(n + cs + ov) % 3]
        whole = data_chunk(data, tuple(c), with_overlap=flag_t) if ov % 2 else data_chunk(data, tuple(c), flag_t)
        k = data_chunk(data, tuple(c)) if (n + ov) % 2 else data_chunk(data, tuple(c), with_overlap=flag_f)
        if len(whole) > cs:
            ctx.violation('chunk_too_long', case, 'chunk %r holds %d > %d samples' % (c, len(whole), cs))
        if len(k) and (k[0] < s0 or k[-1] >= s1):
            ctx.violation('kept_outside_chunk', case, 'kept part %s..%s outside chunk %r' % (k[0], k[-1], c))
        if len(k) and not set(k.tolist()) <= set(whole.tolist()):
            ctx.violation('kept_outside_chunk', case, 'kept part not inside chunk data for %r' % (c,))
        kept.append(k)
    cat = np.concatenate(kept) if kept else np.zeros(0, int)
    d = same(cat, data, dtype=False)
    if d:
        ctx.violation('kept_parts_do_not_tile', case, 'kept parts %s: %s' % (cat.tolist(), d),
                      {'n_lt_chunk': n < cs})


def _case_chunk_bounds_big(case, ctx):
    from phylib.io.array import chunk_bounds
    n, cs, ov = case['n'], case['chunk'], case['overlap']
    if n // max(1, cs - ov) > 200000:
        ctx.note('big_case_skipped_too_many_chunks')
        return
    ctx.count(1, key=hkey('cbb', n, cs, ov), nontrivial=True, cell=('chunk_bounds_big',))
    r = call(lambda: list(chunk_bounds(n, cs, overlap=ov)))
    if not r.ok:
        ctx.violation('raised', case, 'chunk_bounds raised %r' % r.exc, tb=r.tb)
        return
    pos = 0
    for c in r.value:
        s0, s1, k0, k1 = [int(x) for x in c]
        a, b = max(0, min(k0, n)), max(0, min(k1, n))
        if min(s1, n) - s0 > cs or s0 < 0:
            ctx.violation('chunk_too_long', case, 'chunk %r holds more than %d samples' % (c, cs))
            return
        if b > a and (a < s0 or b > min(s1, n)):
            ctx.violation('kept_outside_chunk', case, 'kept part %r outside chunk' % (c,))
            return
        if b > a:
            if a != pos:
                ctx.violation('kept_parts_do_not_tile', case, 'kept part of %r starts at %d, expected %d' % (c, a, pos))
                return
            pos = b
    if pos != n:
        ctx.violation('kept_parts_do_not_tile', case, 'kept parts end at %d, expected %d' % (pos, n))


def _case_excerpts(case, ctx):
    from phylib.io.array import excerpts, get_excerpts
    n, k, size = case['n'], case['k'], case['size']
    nontriv = n < k * size or (k >= 2 and (n - size) % (k - 1) != 0)
    ctx.count(1, key=hkey('ex', n, k, size), nontrivial=nontriv, cell=('excerpts', 'k%d' % k))
    ctx.sample(case, every=1009)
    data = np.arange(n)
    if k >= 2 and n >= 1:
        # the length may be carried by a NumPy integer (signed or unsigned), e.g. derived from a uint64 array
        n_arg = [n, np.int64(n), np.uint64(n), np.int32(n)][(n + k + size) % 4]
        r = call(lambda: list(excerpts(n_arg, n_excerpts=k, excerpt_size=size)))
        if not r.ok:
            ctx.violation('raised', case, 'excerpts raised %r' % r.exc, tb=r.tb)
        else:
            ex = [(int(a), int(b)) for a, b in r.value]
            msg = None
            if len(ex) > k:
                msg = 'more than %d excerpts' % k
            prev = 0
            for (a, b) in ex:
                if not (0 <= a < b <= n):
                    msg = 'excerpt (%d, %d) out of bounds/empty' % (a, b)
                elif b - a > size:
                    msg = 'excerpt (%d, %d) longer than %d' % (a, b, size)
                elif a < prev:
                    msg = 'excerpt (%d, %d) overlaps or precedes the previous one' % (a, b)
                prev = b
            if not ex:
                msg = 'no excerpt at all'
            if msg:
                ctx.violation('bad_excerpts', case, '%s: %r' % (msg, ex))
    r = call(get_excerpts, data, n_excerpts=k, excerpt_size=size)
    if not r.ok:
        ctx.violation('raised', case, 'get_excerpts raised %r' % r.exc, tb=r.tb)
        return
    out = np.asarray(r.value)
    if n < k * size:
        d = same(out, data, dtype=False)
        if d:
            ctx.violation('short_data_not_whole', case, d)
        return
    msg = None
    if len(out) > k * size:
        msg = 'longer than k*size'
    elif len(out) and ((np.diff(out) <= 0).any() or out[0] < 0 or out[-1] >= n):
        msg = 'not an increasing in-bounds selection'
    else:
        runs = np.split(out, np.nonzero(np.diff(out) != 1)[0] + 1) if len(out) else []
        # a run may be the juxtaposition of adjacent excerpts; total count of pieces of length<=size
        pieces = sum(-(-len(r_) // size) for r_ in runs)
        if pieces > k:
            msg = 'needs %d > %d excerpts of size <= %d' % (pieces, k, size)
        if k >= 1 and n >= 1 and len(out) == 0:
            msg = 'empty output'
        if k == 1 and out.tolist() != data[:size].tolist():
            msg = 'single excerpt is not data[:size]'
    if msg:
        ctx.violation('bad_get_excerpts', case, '%s: %s' % (msg, out.tolist()))
    elif (n + k + size) % 3 == 0:
        # data with several values per sample (rows of a trace, feature vectors): the excerpts are ROWS of the data - the
        # same rows as for the 1-D index vector above
        for data2 in (np.c_[data, 2 * data + 1], np.stack([np.c_[data, -data]] * 3, axis=2)):
            r2 = call(get_excerpts, data2, n_excerpts=k, excerpt_size=size)
            if not r2.ok or same(np.asarray(r2.value), data2[out], dtype=False):
                ctx.violation('bad_get_excerpts' if r2.ok else 'raised', dict(case, ndim=data2.ndim), 'data of shape %r: %s' % (
                    data2.shape, r2.exc if not r2.ok else same(np.asarray(r2.value), data2[out], dtype=False)), tb=r2.tb)
                break


def _check_bounds(b, sizes, cs):
    total = sum(sizes)
    b = [int(x) for x in b]
    if b[0] != 0 or b[-1] != total:
        return 'bounds %s do not span [0, %d]' % (b, total)
    if any(y <= x for x, y in zip(b, b[1:])):
        return 'bounds %s not strictly increasing' % b
    if any(y - x > cs for x, y in zip(b, b[1:])):
        return 'bounds %s have a gap > %d' % (b, cs)
    if not set(np.cumsum(sizes).tolist()) <= set(b):
        return 'bounds %s miss a file boundary of sizes %s' % (b, sizes)
    return None


def _case_file_bounds(case, ctx):
    from phylib.io.traces import _get_chunk_bounds
    sizes, cs = case['sizes'], case['chunk']
    ctx.count(1, key=hkey('fb', tuple(sizes), cs), nontrivial=min(sizes) < cs and len(sizes) > 1,
              cell=('file_bounds', 'nf%d' % len(sizes)))
    r = call(_get_chunk_bounds, sizes, cs)
    if not r.ok:
        ctx.violation('raised', case, '_get_chunk_bounds raised %r' % r.exc, tb=r.tb)
        return
    m = _check_bounds(r.value, sizes, cs)
    if m:
        ctx.violation('bad_chunk_bounds', case, m)


def _case_flat_reader(case, ctx):
    from phylib.io.traces import get_ephys_reader
    sizes = case['sizes']
    n = sum(sizes)
    A = L.unique_cells(n, 2, np.int16)
    d = scratch_dir('c16_')
    try:
        offset = [0, 16, 4, 7][sum(sizes) % 4]          # header bytes: 16 = four whole rows of 2 int16 channels
        paths = L.write_flat(d, A, sizes, offset=offset, ext='.bin', same_name=bool(case.get('same_name')), stray=bool(case.get('stray')))
        for cs_f in case['chunks']:
            cs = int(round(cs_f))        # the chunk length of a reader: the rounded number of samples in 600 s
            if cs_f * 2 == int(cs_f * 2) and cs_f != int(cs_f):
                cs = int(cs_f + 0.5)     # exactly x.5: the statement fixes no tie rule, the larger rounding is accepted
            ctx.count(1, key=hkey('fr', tuple(sizes), cs_f, bool(case.get('same_name'))), nontrivial=min(sizes) < cs and len(sizes) > 1,
                      cell=('flat_reader', 'nf%d' % len(sizes)))
            r = call(get_ephys_reader, list(paths), sample_rate=cs_f / 600., dtype=np.int16, n_channels=2, offset=offset)
            sub = dict(case, chunks=[cs_f])
            if not r.ok:
                ctx.violation('raised', sub, 'get_ephys_reader raised %r' % r.exc, tb=r.tb)
                continue
            rd = r.value
            monitors.CURRENT.readers.register(rd, lambda A=A: A, label='flat')
            m = _check_bounds(rd.chunk_bounds, sizes, cs)
            if m:
                ctx.violation('bad_reader_chunk_bounds', sub, m)
            if rd.n_samples != n:
                ctx.violation('bad_reader_chunk_bounds', sub, 'n_samples %r != %d' % (rd.n_samples, n))
            _check_iter(rd, A, sub, ctx, cache=True)
            # readers derived from this one (a channel selection, a gain) keep its chunk grid
            for nm_, der_ in (('reader[:, [0]]', call(lambda: rd[:, [0]])), ('reader * 2', call(lambda: rd * 2))):
                if der_.ok and hasattr(der_.value, 'chunk_bounds'):
                    m_d = _check_bounds(der_.value.chunk_bounds, sizes, cs)
                    ctx.count(1, cell=('flat_reader', 'derived'))
                    if m_d:
                        ctx.violation('bad_reader_chunk_bounds', dict(sub, derived=nm_), '%s: %s' % (nm_, m_d))
                        break
            if cs_f == case['chunks'][-1] and len(sizes) >= 1 and not case.get('same_name'):
                # the last file grows after the reader was opened (an acquisition still running): the reader's grid stays that of the
                # recording it was opened on, consistent with its own part bounds and sample count
                r3 = call(get_ephys_reader, list(paths), sample_rate=cs_f / 600., dtype=np.int16, n_channels=2, offset=offset)
                if r3.ok:
                    with open(paths[-1], 'ab') as f_:
                        f_.write(np.zeros((5, 2), dtype=np.int16).tobytes())
                    ctx.count(1, cell=('flat_reader', 'file_grew_after_open'))
                    pb_ = [int(x) for x in r3.value.part_bounds]
                    m_g = _check_bounds(r3.value.chunk_bounds, list(np.diff(pb_)), cs)
                    if m_g or int(r3.value.n_samples) != pb_[-1]:
                        ctx.violation('bad_reader_chunk_bounds', dict(sub, file_grew=True), 'the last file grew by 5 rows after the reader was opened: part bounds %r, n_samples %r, chunk bounds %r (%s)' % (
                            pb_, r3.value.n_samples, [int(x) for x in r3.value.chunk_bounds], m_g or 'sample count differs'))
            if cs_f == case['chunks'][0]:
                # the caller forwards a params dictionary: n_channels_dat is the number of channels in the file, n_channels the
                # number of channels kept for sorting - the file layout is given by the former
                r2 = call(get_ephys_reader, list(paths), sample_rate=cs_f / 600., dtype=np.int16, n_channels_dat=2, n_channels=1, offset=offset)
                ctx.count(1, cell=('flat_reader', 'both_channel_keywords'))
                if r2.ok:
                    m_ = _check_bounds(r2.value.chunk_bounds, sizes, cs)
                    if m_ or r2.value.n_samples != n:
                        ctx.violation('bad_reader_chunk_bounds', dict(sub, both_channel_keywords=True),
                                      'opened with n_channels_dat=2 (file) and n_channels=1 (kept): %s' % (m_ or 'n_samples %r != %d' % (r2.value.n_samples, n)))
            if cs >= 3 and len(sizes) >= 2:
                # the reader handed over as an array-like object to a second reader with a shorter chunk length
                cs2 = max(1, cs // 2)
                rw = call(get_ephys_reader, rd, sample_rate=cs2 / 600.)
                if rw.ok:
                    ctx.count(1, cell=('flat_reader', 'wrapped_as_array'))
                    m2 = _check_bounds(rw.value.chunk_bounds, [n], cs2)
                    if m2:
                        ctx.violation('bad_reader_chunk_bounds', dict(sub, wrapped_with_chunk=cs2), 'array reader over this reader (chunk length %d): %s' % (cs2, m2))
                    ri = call(lambda: [(int(a), int(b)) for a, b in rw.value.iter_chunks()])
                    if ri.ok and _tiles(ri.value, n):
                        ctx.violation('iter_chunks_not_tiling', dict(sub, wrapped_with_chunk=cs2), 'array reader over this reader: %s' % _tiles(ri.value, n))
            # history: the caller extends the chunk_bounds list it was given; a NEW reader of the same length and rate must
            # still get its own, correct grid
            ra = call(get_ephys_reader, A.copy(), sample_rate=cs_f / 600.)
            if ra.ok and isinstance(ra.value.chunk_bounds, list):
                ra.value.chunk_bounds.extend([n + 10, n + 18])
                rb = call(get_ephys_reader, A[::-1].copy(), sample_rate=cs_f / 600.)
                if rb.ok:
                    ctx.count(1, cell=('array_reader', 'after_caller_extended_bounds'))
                    m3 = _check_bounds(rb.value.chunk_bounds, [n], cs)
                    if m3:
                        ctx.violation('bad_reader_chunk_bounds', dict(sub, history='bounds list of an earlier reader extended'), 'new array reader: %s' % m3)
    finally:
        shutil.rmtree(d, ignore_errors=True)


def _check_iter(rd, A, case, ctx, cache):
    n = A.shape[0]
    # history on one reader object: an abandoned pass, then a complete pass, then a pass on a derived reader;
    # every complete pass must tile the recording
    def abandoned():
        for _ in rd.iter_chunks(cache=False):
            break
    call(abandoned)
    r0 = call(lambda: [(int(a), int(b)) for a, b in rd.iter_chunks(cache=cache)])
    if r0.ok and _tiles(r0.value, n):
        ctx.violation('iter_chunks_not_tiling', case, 'pass after an abandoned pass: %s: %s' % (_tiles(r0.value, n), r0.value),
                      {'repeat': True})
        return
    rc = call(lambda: [(int(a), int(b)) for a, b in (rd + 1).iter_chunks(cache=False)])
    if rc.ok and _tiles(rc.value, n):
        ctx.violation('iter_chunks_not_tiling', case, 'pass on a derived reader after earlier passes: %s: %s' % (
            _tiles(rc.value, n), rc.value), {'repeat': True})
        return
    # two passes over the same reader advanced in lockstep (reentrancy): each must tile the recording on its own
    def lockstep():
        # zip() semantics: the round in which the first pass ends is not started for the second one (the compressed
        # reader's passes share one decoder pool, whose shutdown belongs to whichever pass ends)
        pairs = list(zip(rd.iter_chunks(cache=cache), rd.iter_chunks(cache=cache)))
        return ([(int(x[0][0]), int(x[0][1])) for x in pairs], [(int(x[1][0]), int(x[1][1])) for x in pairs])
    rl = call(lockstep)
    if rl.ok:
        for which, p in enumerate(rl.value):
            if _tiles(p, n):
                ctx.violation('iter_chunks_not_tiling', case, 'pass %d of two passes advanced in lockstep: %s: %s' % (
                    which + 1, _tiles(p, n), p[:12]), {'repeat': True, 'lockstep': True})
                return
    elif not isinstance(rl.exc, (TypeError, ValueError)):
        ctx.violation('raised', case, 'two passes in lockstep raised %r' % rl.exc, {'lockstep': True}, tb=rl.tb)
        return
    r = call(lambda: [(int(a), int(b)) for a, b in rd.iter_chunks(cache=cache)])
    if not r.ok:
        ctx.violation('raised', case, 'iter_chunks raised %r' % r.exc, tb=r.tb)
        return
    m = _tiles(r.value, n)
    if m:
        ctx.violation('iter_chunks_not_tiling', case, '%s: %s' % (m, r.value))
        return
    for (a, b) in r.value:
        if a == b:
            continue
        rr = call(lambda: rd[a:b])
        if not rr.ok:
            ctx.violation('raised', case, 'reader[%d:%d] raised %r' % (a, b, rr.exc), tb=rr.tb)
            continue
        dd = same(rr.value, A[a:b])
        if dd:
            ctx.violation('chunk_data_mismatch', case, 'reader[%d:%d]: %s' % (a, b, dd))


def _case_empty_reader(case, ctx):
    from phylib.io.traces import get_ephys_reader
    ctx.count(1, cell=('empty_reader',))
    for nc in (1, 3):
        r = call(get_ephys_reader, np.zeros((0, nc), dtype=np.int16), sample_rate=100.)
        if not r.ok:
            ctx.note('empty_array_reader_refused')        # refusing an empty recording is not a violation
            continue
        rd = r.value
        cb = [int(x) for x in np.asarray(rd.chunk_bounds).tolist()]
        if cb[:1] != [0] or cb[-1] != 0 or any(y <= x for x, y in zip(cb, cb[1:])):
            ctx.violation('bad_reader_chunk_bounds', case, 'recording without samples: chunk_bounds %s (not strictly increasing from 0 to 0)' % cb)
        ri = call(lambda: [(int(a), int(b)) for a, b in rd.iter_chunks()])
        if ri.ok and _tiles(ri.value, 0):
            ctx.violation('iter_chunks_not_tiling', case, 'recording without samples: %s' % ri.value)
    # the synthetic (random-data) reader: lengths around whole numbers of chunks
    from phylib.io.traces import RandomEphysReader
    for n_, cs_ in ((10, 5), (20, 10), (7, 3), (9, 3), (1, 1), (600000, 600000), (1200001, 600000)):
        r = call(RandomEphysReader, n_, 2, sample_rate=cs_ / 600.)
        ctx.count(1, cell=('random_reader',))
        if not r.ok:
            ctx.violation('raised', dict(case, random_reader=[n_, cs_]), 'RandomEphysReader raised %r' % r.exc, tb=r.tb)
            continue
        m_ = _check_bounds(r.value.chunk_bounds, [n_], cs_)
        if m_:
            ctx.violation('bad_reader_chunk_bounds', dict(case, random_reader=[n_, cs_]), 'random reader of %d samples, chunk length %d: %s' % (n_, cs_, m_))
        ri = call(lambda: [(int(a), int(b)) for a, b in r.value.iter_chunks()])
        if ri.ok and _tiles(ri.value, n_):
            ctx.violation('iter_chunks_not_tiling', dict(case, random_reader=[n_, cs_]), 'random reader of %d samples: %s' % (n_, _tiles(ri.value, n_)))
    # samples but no channel (what traces[:, []] is): the sample axis is chunked as usual
    for n_, cs_ in ((11, 4), (5, 5), (1, 3)):
        r = call(get_ephys_reader, np.zeros((n_, 0), dtype=np.int16), sample_rate=cs_ / 600.)
        if not r.ok:
            ctx.note('channel_less_array_reader_refused')
            continue
        ctx.count(1, cell=('empty_reader', 'no_channels'))
        m_ = _check_bounds(r.value.chunk_bounds, [n_], cs_)
        if m_:
            ctx.violation('bad_reader_chunk_bounds', dict(case, shape=[n_, 0]), 'array of shape (%d, 0): %s' % (n_, m_))
        ri = call(lambda: [(int(a), int(b)) for a, b in r.value.iter_chunks()])
        if ri.ok and _tiles(ri.value, n_):
            ctx.violation('iter_chunks_not_tiling', dict(case, shape=[n_, 0]), 'array of shape (%d, 0): %s' % (n_, _tiles(ri.value, n_)))


def _case_cbin_damaged(case, ctx):
    from phylib.io.traces import get_ephys_reader
    n, cl = case['n'], case['chunk_len']
    A = L.unique_cells(n, 3, np.int16)
    d = scratch_dir('c16_')
    try:
        path = L.write_cbin(d, A, 100., cl, n_threads=2)
        r0 = call(lambda: L.open_cbin(path, 1))
        if not r0.ok:
            return
        offs = [int(x) for x in r0.value.chunk_offsets]
        r0.value.close()
        k = case['damaged']
        with open(path, 'r+b') as f:
            f.seek(offs[k] + 3)
            f.write(b'\xff\x00\xff\x00\xff\x00')
        for cache in (True, False):
            ctx.count(1, key=hkey('cbd', k, cache), nontrivial=True, cell=('cbin_damaged', 'cache%d' % cache))
            rr = call(lambda: get_ephys_reader(L.open_cbin(path, case['threads'])))
            if not rr.ok:
                continue
            ri = call(lambda: [(int(a), int(b)) for a, b in rr.value.iter_chunks(cache=cache)])
            if ri.ok and _tiles(ri.value, n):
                ctx.violation('iter_chunks_not_tiling', dict(case, cache=cache), 'compressed chunk %d is damaged; the iterator returned normally but %s: %s' % (
                    k, _tiles(ri.value, n), ri.value), {'damaged_file': True})
            call(lambda: rr.value.reader.close())
    finally:
        shutil.rmtree(d, ignore_errors=True)


def _case_cbin_reader(case, ctx):
    from phylib.io.traces import get_ephys_reader
    n, cl = case['n'], case['chunk_len']
    A = L.unique_cells(n, 3, np.int16)
    d = scratch_dir('c16_')
    try:
        path = L.write_cbin(d, A, 100., cl, n_threads=2) if not case.get('lens') else L.write_cbin_irregular(d, A, 100., case['lens'])
        n_chunks = -(-n // cl) if not case.get('lens') else len(case['lens'])
        for th in case['threads']:
            for cache in (True, False):
                for rep in range(3):
                    sub = dict(case, threads=[th], cache=cache)
                    ctx.count(1, key=hkey('cb', n, cl, th, cache, rep),
                              nontrivial=(n_chunks > th), cell=('cbin_reader', 'th%d' % th, 'cache%d' % cache))
                    ctx.sample(sub, every=97)
                    r = call(lambda: get_ephys_reader(L.open_cbin(path, th)))
                    if not r.ok:
                        ctx.violation('raised', sub, 'open cbin raised %r' % r.exc, tb=r.tb)
                        continue
                    rd = r.value
                    monitors.CURRENT.readers.register(rd, lambda A=A: A, allow_list=False, label='cbin')
                    cb = [int(x) for x in rd.chunk_bounds]
                    if cb[0] != 0 or cb[-1] != n or any(y <= x for x, y in zip(cb, cb[1:])) or \
                            any(y - x > cl for x, y in zip(cb, cb[1:])):
                        ctx.violation('bad_reader_chunk_bounds', sub, 'chunk_bounds %s' % cb)
                    _check_iter(rd, A, sub, ctx, cache=cache)
                    rd.reader.close()
        # two compressed recordings of one session in one folder (rec.ap / rec.lf): each opened by its path
        if not case.get('lens') and n >= 4:
            A_lf = L.unique_cells(max(2, n // 3), 3, np.int16)
            p_ap = L.write_cbin(d, A, 100., cl, stem='sess.ap')
            p_lf = L.write_cbin(d, A_lf, 100., max(1, cl // 2), stem='sess.lf')
            for p_, A_, cl_ in ((p_lf, A_lf, max(1, cl // 2)), (p_ap, A, cl)):
                rp = call(get_ephys_reader, p_)
                ctx.count(1, cell=('cbin_reader', 'two_in_one_folder'))
                if rp.ok:
                    cb = [int(x) for x in rp.value.chunk_bounds]
                    if cb[0] != 0 or cb[-1] != len(A_) or any(y <= x or y - x > cl_ for x, y in zip(cb, cb[1:])):
                        ctx.violation('bad_reader_chunk_bounds', dict(case, two_in_one_folder=os.path.basename(str(p_))), '%s (%d samples, chunks of %d) opened by path next to its sibling: chunk_bounds %s' % (
                            os.path.basename(str(p_)), len(A_), cl_, cb))
                    call(lambda: rp.value.reader.close())
        # history: the file is opened by its path, recompressed under the same name with another length, opened again
        r1 = call(get_ephys_reader, path)
        if r1.ok:
            call(lambda: r1.value.reader.close())
            A2 = L.unique_cells(n + 5, 3, np.int16)
            path2 = L.write_cbin(d, A2, 100., max(1, cl - 1) if cl > 1 else 2, n_threads=2)
            r2 = call(get_ephys_reader, path2)
            ctx.count(1, cell=('cbin_reader', 'reopened_by_path'))
            if str(path2) == str(path) and r2.ok:
                cb = [int(x) for x in r2.value.chunk_bounds]
                if cb[-1] != n + 5 or r2.value.n_samples != n + 5:
                    ctx.violation('bad_reader_chunk_bounds', dict(case, reopened=True), 'file recompressed with %d samples and opened again by its path: '
                                  'chunk_bounds end at %d, n_samples %r' % (n + 5, cb[-1], r2.value.n_samples))
                else:
                    _check_iter(r2.value, A2, dict(case, reopened=True), ctx, cache=False)
                call(lambda: r2.value.reader.close())
    finally:
        shutil.rmtree(d, ignore_errors=True)
