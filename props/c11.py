"""C11 - Merging probes conserves every spike and renumbers ids disjointly.
(The same merges are judged against C12's block-layout oracle by props/c12.py.)"""
import csv
import os
import shutil

import numpy as np

from gen.dataset import random_spec
from vmon.core import call, same, hkey, scratch_dir
from vmon import monitors
from vmon.monitors import snapshot, snapshot_diff

ID = 'C11'
LEVEL = 'exploration'
MONITORS = ('M2', 'M3', 'M6')
ANCHORS = ['phylib.io.merge:_load_multiple_spike_times', 'phylib.io.merge:_load_multiple_spike_arrays',
           'phylib.io.merge:Merger.write_spike_data', 'phylib.io.merge:Merger.write_spike_clusters',
           'phylib.io.merge:Merger.write_cluster_data', 'phylib.io.merge:Merger.merge']
RULE = ('Each case = 1-4 generated probe directories (independent spike counts 4-60, channel counts 2-7, '
        'template counts 2-6, ids with gaps / curated clusters / spikeless templates, spike times on a coarse '
        'grid so that ties occur inside and across probes, id dtypes int32/uint32/int64/uint16, exact-zero metadata values, occasionally a probe with 70 or 130 templates, time dtypes '
        'uint64/int64, per-cluster TSV files in all / some / none of the probes; probe folders that share their name; two merges with a 40000-spike probe) merged by the real '
        'Merger.merge(). C11 oracle: the output files and the returned model are compared, position by '
        'position, with the stable merge of the inputs by (time, probe, original index) - exactly-once '
        'conservation of (time, amplitude, template, cluster) tuples; per-probe id offsets are RECOVERED from '
        'the output and must be constant per probe with disjoint id ranges; cluster_probes and renumbered TSV '
        'files point back to probe and original id; input directories content-hashed before/after; a third of the cases merge the same probes twice in '
        'one process and judge the second output. '
        'non-trivial = distinct merges with >= 2 probes and a cross-probe time tie, or >= 3 probes.')
RULE += ' Added classes: probe folders whose given order is not their lexicographic order (imec2/imec10/..., right/left/mid/aux) or whose names hold glob metacharacters ([ ] *); calibrated fractional sampling rates; column-major .npy inputs in any probe; non-finite samples in a template (uncurated merges); history merge / split a cluster in the first probe / merge() again on the same Merger, judged against the inputs as they are then.'
RULE += ' Round 5: comma-separated tables under the .tsv name; probes below the output directory; sequential recordings that only touch, listed non-chronologically; an output directory already holding the reversed merge.'
RULE += ' Round 6: table rows for ids without spikes; probes with their own sampling rate; inputs carrying a channel_probe.npy; the same raw file name in every folder; merges of 9-11 probes.'
RULE += ' Round 7: stale cluster_probes.npy in input folders; an earlier single-probe merge in the output folder; per-probe template precision; inputs already spread along x.'
RULE += ' Round 8: the same folder listed twice; a 130-probe merge; value columns spelled differently per probe; comma-separated tables.'
RULE += ' Round 9: later probes whose lowest cluster ids have lost their spikes; every id named by a per-cluster table must map back to its probe; probe_info given (unsorted labels, keyword or positional).'
RULE += " Round 10: non-ASCII labels in per-cluster tables; a first probe spanning more than 2**31 samples; one probe's spike times shifted (same count) between two merges of one Merger; capitalised parameter names in params.py."
RULE += ' Round 11: an earlier merge of the same probes with 32-bit times and single-precision amplitudes in the output folder; multiples of the identity (another per probe) as whitening matrices; geometry and whitening changed by parts per million between two merges.'
RULE += ' Round 12: per-cluster table rows in no particular order.'
RULE += ' Round 13: a non-trivial Kilosort-2 templates_ind.npy in probe folders; a first probe of 2**20 + 700 spikes with ties around its 2**20-th spike.'
EXHAUSTIVE = {'quick': False, 'thorough': False}
FLOORS = {'quick': {'evaluations': 950, 'distinct_nontrivial': 400},
          'thorough': {'evaluations': 15000, 'distinct_nontrivial': 6000}}
ASSUMPTIONS = ['probes with a single spike / template / channel are excluded (squeeze(); the source says '
               '"may fail in degenerate cases")', 'probe coordinates are non-negative (quantifier of C12)',
               'templates with isolated NaN / inf samples are merged only when no probe has curated clusters: load_model refuses such templates for multi-template clusters in any dataset, merged or not']
NSHARDS = 16
TSVS = ['cluster_Amplitude.tsv', 'cluster_ContamPct.tsv', 'cluster_KSLabel.tsv']


def plan(tier, seed):
    n = 1000 if tier == 'quick' else 20000
    return [{'shard': i, 'n': NSHARDS, 'seed': seed, 'cases': n // NSHARDS} for i in range(NSHARDS)]


def run_shard(desc, ctx):
    for i in range(desc['cases']):
        run_case({'seed': [desc['seed'], desc['shard'], i]}, ctx)
    if desc['shard'] < 2:
        run_case({'seed': [desc['seed'], desc['shard'], 4242], 'huge': True}, ctx)
    if desc['shard'] == 5:
        run_case({'seed': [desc['seed'], desc['shard'], 131313], 'many': True}, ctx)
    if desc['shard'] == 10:
        run_case({'seed': [desc['seed'], desc['shard'], 101010], 'million': True}, ctx)       # a first probe with more than 2**20 spikes


def run_case(case, ctx, which='C11'):
    d = scratch_dir('c11_')
    try:
        _run(case, ctx, d, which)
    finally:
        shutil.rmtree(d, ignore_errors=True)


def build(case):
    rng = np.random.default_rng(case['seed'])
    k = int(rng.choice([1, 2, 2, 3, 3, 4]))
    if case.get('million'):
        k = 2
    if case.get('many'):
        k = case['many'] if isinstance(case['many'], int) and case['many'] > 1 else 130                # more probes than a signed byte (130) / a byte (260) can number
    if case['seed'][2] % 40 == 17:
        k = int(rng.integers(9, 12))          # many probes (more than 8: orders that a hash-based container would not keep)
    n_samples = int(rng.integers(10, 40))
    nsw = int(rng.integers(3, 6))
    if case.get('nsw'):
        nsw = case['nsw']
    rate = [100., 30000., 30000.185185, 29999.9537][int(rng.integers(0, 4))]      # calibrated (fractional) rates too
    mat_mode = {m: ['all', 'some', 'none'][int(rng.integers(0, 3))] for m in ('wm', 'similar', 'wmi')}
    if case['seed'][2] % 7 in (0, 5):
        mat_mode = {m: 'all' for m in mat_mode}          # (cases that re-use an output folder: see _run)
    tsv_mode = {t: ['all', 'some', 'none'][int(rng.integers(0, 3))] for t in TSVS}
    dt_ind = ['int32', 'uint32', 'int64', 'mixed'][int(rng.integers(0, 4))]
    huge = bool(case.get('huge')) and k >= 2      # id files beyond 256 KiB in a probe with a non-zero offset
    many_spikes = bool(rng.random() < 0.02)      # size: thousands of spikes per probe
    big = int(rng.integers(0, max(1, k - 1))) if (k >= 2 and rng.random() < 0.06) else -1   # a non-last probe with > 64 templates
    # non-finite samples in a template must stay where they are; only in uncurated merges (with curated clusters
    # load_model itself refuses such templates, merged or not: outside the statement)
    nonfinite = int(rng.integers(0, k)) if rng.random() < 0.15 else -1
    own_probe_tables = bool(rng.random() < 0.25)       # the inputs carry a channel_probe.npy of their own (it says nothing about the merge)
    same_dat_name = [None, None, 'recording.bin', ['recording.bin']][int(rng.integers(0, 4))]     # the same raw file NAME in every folder
    other_rate = bool(rng.random() < 0.12)
    header_variant = bool(rng.random() < 0.15)       # the value column spelled differently in every second probe (KSLabel / kslabel)
    tpl_dtypes = [['float32'], ['float32'], ['float64'], ['float32', 'float64'], ['float64', 'float32']][int(rng.integers(0, 5))]     # per-probe template precision
    spread = bool(rng.random() < 0.2)        # inputs whose coordinates are already spread along x (0.., 100.., 0.., 300..)
    if case.get('finite_only'):
        nonfinite = -1            # (C13/C14 export amplitudes, which non-finite templates leave undefined)
    specs = []
    for p in range(k):
        def pick(mode):
            return mode == 'all' or (mode == 'some' and (p % 2 == 0))
        s = random_spec(rng, nc=int(rng.integers(2, 8)), nt=int(rng.integers(2, 7)) if p != big else int(rng.choice([70, 130])),
                        nsw=nsw, ns=(int(rng.integers(4, 60)) if not many_spikes else int(rng.integers(3000, 6000))) if not (huge and p == 1) else 40000,
                        rate=rate, n_samples=n_samples, clusters=['same', 'curated'][int(rng.integers(0, 2))] if nonfinite < 0 else 'same',
                        wm=pick(mat_mode['wm']), similar=pick(mat_mode['similar']), wmi_file=pick(mat_mode['wmi']),
                        features='sparse', tfeatures=True, nloc=2, tfeat_nloc=2,
                        dtype_ind=dt_ind if dt_ind != 'mixed' else ['int64', 'uint32', 'int32'][p % 3],
                        dtype_ids=['int32', 'uint32', 'int64', 'uint16'][int(rng.integers(0, 4))] if not huge else 'int64',
                        dtype_times=['uint64', 'int64'][int(rng.integers(0, 2))],
                        spikeless=['none', 'none', 'middle', 'last'][int(rng.integers(0, 4))],
                        ncdat_extra=int(rng.integers(0, 3)), permute_map=bool(rng.integers(0, 2)), probes=own_probe_tables,
                        dtype_templates=tpl_dtypes[p % len(tpl_dtypes)])
        if same_dat_name is not None:
            s.notes['dat_path_literal'] = same_dat_name
        if p >= 1 and other_rate:
            s.sample_rate = rate * 0.9          # a probe with its own clock: sample numbers are kept as they are
        s.positions = s.positions - s.positions.min(axis=0)        # non-negative coordinates
        if spread and p % 2 == 1:
            s.positions[:, 0] += 100. * p
        if p >= 1 and nonfinite < 0 and case['seed'][2] % 4 == 1 and s.n_spikes >= 4:
            # curation left the LOWEST cluster ids of a later probe without spikes (merged into a new, higher id)
            lo = np.unique(s.clusters)[:2]
            s.spike_clusters = np.where(np.isin(s.clusters, lo), s.clusters.max() + 1, s.clusters).astype(s.clusters.dtype)
        if case['seed'][2] % 5 == 3 and p % 2 == 0:
            s.notes['params_style'] = 'upper'           # N_CHANNELS_DAT = ... in the params.py of the first, third ... probe
        if case['seed'][2] % 9 == 7 and s.wm is not None:
            # recent sorters ship a multiple of the identity as whitening matrix, another multiple for every probe
            s.wm = np.eye(s.wm.shape[0]) * [1.0, 0.005, 0.25, 3.0][p % 4]
            if s.wmi_file is not None:
                s.wmi_file = np.linalg.inv(s.wm)
        if case['seed'][2] % 8 == 6 and p % 2 == 1:
            # a Kilosort-2 templates_ind.npy whose rows are NOT 0 1 2 ... lies in the folder (phylib reads templates.npy as dense)
            import io as _io
            bio_ = _io.BytesIO()
            np.save(bio_, np.tile(np.arange(s.n_channels)[::-1], (s.n_templates, 1)).astype(np.float64))
            s.extra_files['templates_ind.npy'] = bio_.getvalue()
        if rng.random() < 0.25:
            s.notes['fortran'] = 'all'            # column-major .npy files (MATLAB exporters), in any probe incl. the first
        if p == nonfinite:
            s.templates[-1, int(rng.integers(0, nsw)), int(rng.integers(0, s.n_channels))] = [np.nan, np.inf, -np.inf][int(rng.integers(0, 3))]
            s.notes['nonfinite_template'] = True
        ids = np.unique(s.clusters)
        for t in TSVS:
            if pick(tsv_mode[t]):
                rows = ['cluster_id\t%s' % (t[8:-4] if not (p % 2 and header_variant) else t[8:-4].lower())]
                # (sorters keep the rows of clusters that lost all their spikes during curation: ids inside the probe's range)
                gap_ids = [c for c in range(int(ids.max())) if c not in set(ids.tolist())][:3] if rng.random() < 0.4 else []
                for c in sorted(ids.tolist() + gap_ids):
                    if rng.random() < 0.8:
                        v = (['good', 'mua', 'noise'] if case['seed'][2] % 6 != 3 else ['m\u00e4\u00dfig', 'gut\u2713', 'noise'])[int(rng.integers(0, 3))] if 'KSLabel' in t else \
                            (repr(float(np.round(rng.uniform(0, 100), 3))) if rng.random() < 0.8 else ['0.0', '0'][int(rng.integers(0, 2))])
                        rows.append('%d\t%s' % (c, v))
                if case['seed'][2] % 6 == 2 and len(rows) > 2:
                    rows = rows[:1] + [rows[i_] for i_ in (1 + rng.permutation(len(rows) - 1)).tolist()]      # rows in no particular order of cluster id
                s.tsv[t] = '\n'.join(rows) + '\n'
                if rng.random() < 0.15:
                    s.tsv[t] = s.tsv[t].replace('\t', ',')       # a comma-separated table under the .tsv name (the delimiter is sniffed)
        specs.append(s)
    if k >= 2 and rng.random() < 0.12:
        # recordings that follow each other in time (blocks that only touch: last sample of one = first of the next),
        # listed in non-chronological order
        order_t = rng.permutation(k)
        start = 0
        for p in order_t.tolist():
            sm = specs[p].spike_samples.astype(np.int64)
            sm = sm - sm[0] + start
            start = int(sm[-1])
            specs[p].spike_samples = sm.astype(specs[p].spike_samples.dtype)
    if k >= 2 and case['seed'][2] % 13 == 4 and not case.get('finite_only'):
        # the first probe's recording spans more than 2**31 samples, the last probe ends much sooner
        sm = specs[0].spike_samples.astype(np.int64)
        sm[-max(1, len(sm) // 4):] += 2 ** 31 + 54321
        specs[0].spike_samples = sm.astype(specs[0].spike_samples.dtype)
    if k >= 2 and rng.random() < 0.1 and nonfinite < 0 and not case.get('finite_only'):      # (C14: amplitudes of a signal-free template are 0/0)
        specs[-1].templates[-1] = 0             # the very last template of the last probe has no signal at all
    if case.get('million'):
        # probe 0 is inflated to 2**20 + 700 spikes (one every other sample); probe 1 has spikes that tie with probe 0's spikes
        # number 2**20 - 1, 2**20 and 2**20 + 1
        s0, s1 = specs[0], specs[1]
        N = 2 ** 20 + 700
        rm = np.random.default_rng(7)
        s0.spike_samples = (np.arange(N, dtype=np.int64) * 2).astype(s0.spike_samples.dtype)
        s0.spike_templates = rm.integers(0, s0.n_templates, size=N).astype(s0.spike_templates.dtype)
        s0.spike_clusters = s0.spike_templates.copy()
        s0.amplitudes = rm.uniform(1, 20, size=N).astype(s0.amplitudes.dtype)
        if s0.pc_features is not None:
            s0.pc_features = np.zeros((N,) + s0.pc_features.shape[1:], dtype=s0.pc_features.dtype)
        if s0.template_features is not None:
            s0.template_features = np.zeros((N,) + s0.template_features.shape[1:], dtype=s0.template_features.dtype)
        s0.tsv.clear()
        t1 = np.sort(np.r_[np.asarray(s1.spike_samples, dtype=np.int64)[3:], [2 * (2 ** 20 - 1), 2 * 2 ** 20, 2 * (2 ** 20 + 1)]])
        s1.spike_samples = t1.astype(s1.spike_samples.dtype)
    return specs, {'k': k, 'mat_mode': mat_mode, 'tsv_mode': tsv_mode, 'dt_ind': dt_ind}


def read_tsv(path):
    with open(path, newline='', encoding='utf-8') as f:
        rows = list(csv.reader(f, delimiter='\t'))
    return rows[0][1], {int(r[0]): r[1] for r in rows[1:] if r}


def _run(case, ctx, d, which):
    from phylib.io.merge import Merger
    specs, info = build(case)
    k = info['k']
    subdirs = []
    same_leaf = case['seed'][2] % 5 == 2          # .../imec0/ks2, .../imec1/ks2: probe folders with equal names
    for p, s in enumerate(specs):
        # the order given by the caller is the probe order: names whose lexicographic order differs (imec2 < imec10,
        # right/left/mid/aux), names with glob metacharacters, spaces and non-ASCII characters
        if k > 12:
            sd = os.path.join(d, 'p%03d' % (500 - p))          # many probes (in descending name order)
        elif same_leaf:
            sd = os.path.join(d, 'imec%d' % ([2, 10, 11, 3] + list(range(20, 30)))[p], 'ks2')
        else:
            style = case['seed'][2] % 4
            sd = os.path.join(d, ['probe%d' % p, 'pröbe %d' % p, 'M7[day%d]*' % p, (['right', 'left', 'mid', 'aux'] + ['zz%d' % q for q in range(12, 2, -1)])[p]][style])
        s.write(sd)
        if case['seed'][2] % 5 == 1 and p < len(specs) - 1:
            # the folder is the (since curated) output of an earlier merge: it still holds that merge's per-cluster probe
            # table, shorter than the id range in use now
            np.save(os.path.join(sd, 'cluster_probes.npy'), np.zeros(max(1, int(s.clusters.max()) - 1), dtype=np.int32))
        subdirs.append(sd)
    if case['seed'][2] % 11 == 5 and 2 <= k <= 3:
        # the same folder listed twice (it is merged twice, as two probes)
        subdirs.append(subdirs[0])
        specs.append(specs[0])
        k += 1
        info['k'] = k
    out = os.path.join(d, 'merged')
    if case['seed'][2] % 6 == 4:
        out = d            # the probes live below the output directory (session/imec0, session/imec1 -> session)
    if case['seed'][2] % 3 == 1:
        from pathlib import Path
        subdirs = [Path(x) for x in subdirs]      # str and Path forms are both documented
        out = Path(out)
    # expected stable merge
    times_l = [s.spike_samples.astype(np.int64) for s in specs]
    concat_t = np.concatenate(times_l)
    probe_of = np.concatenate([np.full(len(t), p) for p, t in enumerate(times_l)])
    idx_in = np.concatenate([np.arange(len(t)) for t in times_l])
    order = np.lexsort((idx_in, probe_of, concat_t))
    cross_tie = False
    if k >= 2:
        ts = concat_t[order]
        ps = probe_of[order]
        cross_tie = bool(((np.diff(ts) == 0) & (np.diff(ps) != 0)).any())
    sizes_differ = len(set(s.n_channels for s in specs)) == k and len(set(s.n_templates for s in specs)) == k
    nontriv = (k >= 2 and cross_tie) or k >= 3 if which == 'C11' else (k >= 3 and sizes_differ) or (k >= 2 and info['dt_ind'] in ('uint32', 'mixed'))
    desc = {'seed': case['seed'], 'info': info, 'probes': [s.describe() for s in specs]}
    ctx.count(1, key=hkey(tuple(case['seed']), which), nontrivial=bool(nontriv),
              cell=('k%d' % k, 'ind_' + info['dt_ind'], 'wm_' + info['mat_mode']['wm']))
    ctx.sample({'info': info, 'probes': [[s.n_spikes, s.n_channels, s.n_templates] for s in specs]}, every=31)
    f0 = {'k': min(k, 3), 'ind_dtype': info['dt_ind']}
    subdirs_s = [str(x) for x in subdirs]
    before = [snapshot(sd) for sd in subdirs_s]
    mon = monitors.CURRENT
    if mon.fs:
        mon.fs.watch(*subdirs_s)
    if k >= 2 and case['seed'][2] % 7 == 0 and all(v == 'all' for v in info['mat_mode'].values()):
        # (only when every probe ships every optional matrix: otherwise the second merge does not rewrite a matrix file that
        # the first left behind, and the stale file of another shape makes the returned model unloadable - re-used output
        # folders are not part of the statement)
        # history: the first probe alone was merged into this output directory before (a one-probe merge is allowed);
        # the merge of all probes is the one judged - and the inputs must come out of it untouched
        ctx.cell('output_dir_holds_single_probe_merge')
        r0 = call(lambda: Merger(subdirs[:1], out).merge())
        if r0.ok:
            call(r0.value.close)
        before = [snapshot(sd) for sd in subdirs_s]
    if case['seed'][2] % 7 == 4 and which != 'C14x':
        # history: the output directory holds an earlier merge of the same probes made when their spike times were stored
        # as 32-bit integers and their amplitudes in single precision (same counts, narrower types)
        saved_ = {}
        for sd_, s_ in zip(subdirs_s, specs):
            for fn_, conv in (('spike_times.npy', lambda a: (a.astype(np.int64) % 2 ** 30).astype(np.int32)), ('amplitudes.npy', lambda a: a.astype(np.float32))):
                fp_ = os.path.join(sd_, fn_)
                if os.path.exists(fp_) and fp_ not in saved_:
                    saved_[fp_] = open(fp_, 'rb').read()
                    arr_ = np.load(fp_)
                    np.save(fp_, np.sort(conv(arr_), axis=0) if fn_ == 'spike_times.npy' else conv(arr_))
        ctx.cell('output_dir_holds_narrow_typed_merge')
        r0 = call(lambda: Merger(subdirs, out).merge())
        if r0.ok:
            call(r0.value.close)
        for fp_, data_ in saved_.items():
            with open(fp_, 'wb') as f_:
                f_.write(data_)
        before = [snapshot(sd) for sd in subdirs_s]
    if k >= 2 and case['seed'][2] % 7 == 6:
        # history: the output directory already holds a merge of the same probes in the opposite order (same total
        # shapes, other block layout); the merge in the given order is the one judged
        ctx.cell('output_dir_holds_reversed_merge')
        r0 = call(lambda: Merger(subdirs[::-1], out).merge())
        if r0.ok:
            call(r0.value.close)
    if case['seed'][2] % 5 == 2:
        # the documented probe_info argument (labels not in alphabetical order, extra fields): it describes the probes in the
        # order given and changes nothing else
        labels_ = ['right', 'left', 'middle', 'z9', 'a0', 'm5', 'b1', 'y8', 'c2', 'x7', 'd3', 'w6'] + ['p%03d' % (500 - i) for i in range(200)]
        pinfo = [{'label': labels_[i], 'model': '3B%d' % (i % 2)} for i in range(len(subdirs))]
        ctx.cell('probe_info_given')
        merger = Merger(subdirs, out, pinfo) if case['seed'][2] % 2 else Merger(subdirs, out, probe_info=pinfo)
    else:
        merger = Merger(subdirs, out)
    if k >= 2 and case['seed'][2] % 7 == 3:
        # history: a first merge() fails at a later probe (an input file is missing), the input is repaired and
        # merge() is called again on the SAME Merger object; the retry is the one judged
        ctx.cell('failed_then_retried')
        f0 = dict(f0, retried=True)
        victim = os.path.join(subdirs_s[-1], ['templates.npy', 'channel_map.npy', 'amplitudes.npy'][case['seed'][2] % 3])
        os.rename(victim, victim + '.away')
        r0 = call(merger.merge)
        os.rename(victim + '.away', victim)
        if r0.ok:
            ctx.note('merge_succeeded_without_an_input_file')
            call(r0.value.close)
    if k >= 2 and case['seed'][2] % 7 == 2:
        # history: merge, then one probe's clock is re-aligned (its spike times shift by a few samples, same number of spikes), then
        # merge() again on the SAME Merger object; the second merge is the one judged, against the inputs as they are now
        r0 = call(merger.merge)
        if r0.ok:
            call(r0.value.close)
        pv = case['seed'][2] % k
        sv = specs[pv]
        sv.spike_samples = (sv.spike_samples.astype(np.int64) + 5).astype(sv.spike_samples.dtype)
        np.save(os.path.join(subdirs_s[pv], sv._name('spike_times.npy') if sv.names == 'ks' else 'spike_times.npy'), sv._vec(sv.spike_samples.astype(sv.dtype_times)))
        # ... its geometry is re-measured (coordinates change by a few parts per million) and its whitening matrix re-estimated
        sv.positions = sv.positions * (1 + 4e-6)
        np.save(os.path.join(subdirs_s[pv], 'channel_positions.npy'), sv.positions)
        if sv.wm is not None and sv.wmi_file is None:
            sv.wm = sv.wm * (1 + 3e-6) + np.eye(sv.wm.shape[0]) * 2e-6
            np.save(os.path.join(subdirs_s[pv], 'whitening_mat.npy'), sv.wm)
        ctx.cell('times_shifted_between_merges')
        f0 = dict(f0, remerged_after_shift=True)
        times_l = [s_.spike_samples.astype(np.int64) for s_ in specs]
        concat_t = np.concatenate(times_l)
        probe_of = np.concatenate([np.full(len(t_), p_) for p_, t_ in enumerate(times_l)])
        idx_in = np.concatenate([np.arange(len(t_)) for t_ in times_l])
        order = np.lexsort((idx_in, probe_of, concat_t))
        desc['probes'] = [s.describe() for s in specs]
        before = [snapshot(sd) for sd in subdirs_s]
    if k >= 2 and case['seed'][2] % 7 == 5:
        # history: merge, curation goes on in the first probe (a cluster is split: one more cluster id there), then
        # merge() again on the SAME Merger object; the second merge is the one judged, against the inputs as they are now
        r0 = call(merger.merge)
        if r0.ok:
            call(r0.value.close)
        s0 = specs[0]
        sc = s0.clusters.copy()
        ids0, cnt0 = np.unique(sc, return_counts=True)
        victim_c = ids0[int(np.argmax(cnt0))]
        members = np.nonzero(sc == victim_c)[0]
        if len(members) >= 2:
            ctx.cell('merged_split_merged_again')
            f0 = dict(f0, remerged_after_split=True)
            sc[members[::2]] = int(sc.max()) + 1
            s0.spike_clusters = sc
            np.save(os.path.join(subdirs_s[0], 'spike_clusters.npy'), sc)
            if case['seed'][2] % 2 == 0 and all(v == 'all' for v in info['mat_mode'].values()):
                # ... or the first probe is re-sorted altogether (other template and channel counts) between the two merges
                import shutil as _sh
                alt, _info = build({'seed': list(case['seed'][:2]) + [case['seed'][2] + 100000], 'nsw': specs[0].nsw, 'finite_only': True})
                s_new = alt[0]
                s_new.sample_rate = specs[0].sample_rate
                if s_new.wm is not None and s_new.similar_templates is not None and s_new.wmi_file is not None:
                    _sh.rmtree(subdirs_s[0])
                    s_new.write(subdirs_s[0])
                    # (a folder that is listed twice is described by the new sorting in both places)
                    specs[:] = [s_new if str(sd_) == str(subdirs_s[0]) else s_ for s_, sd_ in zip(specs, subdirs_s)]
                    ctx.cell('first_probe_resorted_between_merges')
                    # the expected merge is that of the inputs as they are now
                    times_l = [s_.spike_samples.astype(np.int64) for s_ in specs]
                    concat_t = np.concatenate(times_l)
                    probe_of = np.concatenate([np.full(len(t_), p_) for p_, t_ in enumerate(times_l)])
                    idx_in = np.concatenate([np.arange(len(t_)) for t_ in times_l])
                    order = np.lexsort((idx_in, probe_of, concat_t))
            desc['probes'] = [s.describe() for s in specs]
            before = [snapshot(sd) for sd in subdirs_s]
    r = call(merger.merge)
    audit = mon.fs.stop() if mon.fs else []
    after = [snapshot(sd) for sd in subdirs_s]
    if not r.ok:
        ctx.violation('merge_raised', desc, 'Merger.merge() raised %r' % r.exc, dict(f0, exc=r.exc_name), tb=r.tb)
        return
    m = r.value
    if which == 'C11' and case['seed'][2] % 3 == 0:
        # history: the same probe directories merged a second time in the same process (new Merger, new
        # output directory) must give the same merged dataset; the second output is the one judged
        call(m.close)
        out = os.path.join(d, 'merged_again')
        out_was_path = True
        ctx.cell('merged_twice')
        f0 = dict(f0, second_merge=True)
        r = call(lambda: Merger(subdirs, out).merge())
        after = [snapshot(sd) for sd in subdirs_s]
        if not r.ok:
            ctx.violation('merge_raised', desc, 'second Merger.merge() of the same probes raised %r' % r.exc,
                          dict(f0, exc=r.exc_name), tb=r.tb)
            return
        m = r.value
    try:
        if which == 'C11':
            _oracle_c11(ctx, desc, f0, specs, out, m, order, probe_of, idx_in, before, after, audit)
        else:
            from props.c12 import oracle_c12
            oracle_c12(ctx, desc, f0, specs, out, m, info)
    finally:
        call(m.close)


def _oracle_c11(ctx, desc, f0, specs, out, m, order, probe_of, idx_in, before, after, audit):
    def V(kind, msg, **kw):
        ctx.violation(kind, desc, msg, dict(f0, **kw))

    def load(name):
        return np.load(os.path.join(out, name)).squeeze()
    k = len(specs)
    po, io_ = probe_of[order], idx_in[order]
    # (1) conservation: times / amplitudes position by position
    exp_t = np.concatenate([s.spike_samples.astype(np.int64) for s in specs])[order]
    exp_a = np.concatenate([s.amplitudes for s in specs])[order]
    for name, exp in (('spike_times.npy', exp_t), ('amplitudes.npy', exp_a)):
        rr = call(load, name)
        dd = same(rr.value, exp, dtype=False) if rr.ok else repr(rr.exc)
        if dd:
            V('not_the_stable_merge', '%s: %s' % (name, dd), file=name)
    if np.any(np.diff(exp_t) < 0):
        raise AssertionError('harness: expected merge not sorted')
    # (2) ids: constant per-probe offsets, disjoint ranges
    offsets = {}
    for name, attr in (('spike_clusters.npy', 'clusters'), ('spike_templates.npy', 'spike_templates')):
        rr = call(load, name)
        if not rr.ok or rr.value.shape != exp_t.shape:
            V('id_renumbering', '%s unreadable or wrong length (%r)' % (name, rr.exc if not rr.ok else rr.value.shape), file=name)
            continue
        got = rr.value.astype(np.int64)
        orig = np.concatenate([getattr(s, attr).astype(np.int64) for s in specs])[order]
        diff = got - orig
        offs, ranges = [], []
        bad = False
        for p in range(k):
            dp = diff[po == p]
            if len(set(dp.tolist())) != 1:
                V('id_renumbering', '%s: ids of probe %d are not shifted by one constant (shifts %r)' % (
                    name, p, sorted(set(dp.tolist()))[:6]), file=name)
                bad = True
                break
            offs.append(int(dp[0]))
            ranges.append(set(got[po == p].tolist()))
        if bad:
            continue
        offsets[attr] = offs
        for p in range(k):
            for q in range(p + 1, k):
                if ranges[p] & ranges[q]:
                    V('id_collision', '%s: probes %d and %d share ids %r' % (name, p, q, sorted(ranges[p] & ranges[q])[:6]), file=name)
    # (3) cluster_probes
    if 'clusters' in offsets:
        rr = call(load, 'cluster_probes.npy')
        if not rr.ok:
            V('cluster_probes', 'cluster_probes.npy: %r' % rr.exc)
        else:
            cp = np.atleast_1d(rr.value)
            for p, s in enumerate(specs):
                ids = np.unique(s.clusters).astype(np.int64) + offsets['clusters'][p]
                if ids.max() >= len(cp) or not (cp[ids] == p).all():
                    V('cluster_probes', 'cluster_probes does not map the clusters of probe %d back to it' % p)
                    break
                # ids that only a per-cluster table of the probe names (clusters that lost their spikes in curation): their
                # renumbered rows must lead back to the probe as well
                named = sorted(set(int(l.split('\t' if '\t' in l else ',')[0]) for t_ in TSVS if t_ in s.tsv for l in s.tsv[t_].strip().split('\n')[1:]))
                named = [c for c in named if c <= int(s.clusters.max())]
                ctx.mon('table_only_ids', len([c for c in named if c not in set(np.unique(s.clusters).tolist())]))
                wrong = [c for c in named if c + offsets['clusters'][p] >= len(cp) or cp[c + offsets['clusters'][p]] != p]
                if wrong:
                    V('cluster_probes', 'the metadata rows of clusters %r of probe %d are renumbered to ids that cluster_probes gives to probe %r' % (
                        wrong[:5], p, [int(cp[c + offsets['clusters'][p]]) if c + offsets['clusters'][p] < len(cp) else None for c in wrong[:5]]))
                    break
        # (4) renumbered TSVs
        for t in TSVS:
            exp = {}
            for p, s in enumerate(specs):
                if t in s.tsv:
                    lines = [l.split('\t' if '\t' in l else ',') for l in s.tsv[t].strip().split('\n')[1:]]
                    for cid, v in lines:
                        exp[int(cid) + offsets['clusters'][p]] = v
            path = os.path.join(out, t)
            if not exp:
                continue
            if not os.path.exists(path):
                V('cluster_metadata', '%s missing from the merged dataset' % t, file=t)
                continue
            field, got = read_tsv(path)
            ok = field.lower() == t[8:-4].lower() and set(got) == set(exp)
            if ok:
                for c, v in exp.items():
                    try:
                        same_v = (got[c] == v) or abs(float(got[c]) - float(v)) <= 1e-9 * max(1, abs(float(v)))
                    except ValueError:
                        same_v = False
                    ok = ok and same_v
            if not ok:
                V('cluster_metadata', '%s: %r != expected %r' % (t, dict(sorted(got.items())[:6]), dict(sorted(exp.items())[:6])), file=t)
    # (4b) merged files are files of their own: a second name (hard link) of an input file would let a later write into the
    # output rewrite the input
    for fn in sorted(os.listdir(str(out))):
        fp = os.path.join(str(out), fn)
        if os.path.isfile(fp) and not os.path.islink(fp) and os.stat(fp).st_nlink > 1:
            V('output_is_hard_link', 'merged file %s is a hard link (st_nlink=%d)' % (fn, os.stat(fp).st_nlink), file=fn)
            break
    # (5) the returned model shows the same merged spikes
    rate = specs[0].sample_rate
    for name, got, exp in (('spike_samples', m.spike_samples, exp_t), ('spike_times', m.spike_times, exp_t / rate),
                           ('amplitudes', m.amplitudes, exp_a)):
        dd = same(got, exp, dtype=False, rtol=1e-12)
        if dd:
            V('returned_model', 'model.%s: %s' % (name, dd), attr=name)
    # (6) inputs untouched
    for p, (b, a) in enumerate(zip(before, after)):
        created, deleted, changed = snapshot_diff(b, a)
        for fn in created + deleted + changed:
            w = [e for e in audit if e[1].endswith(fn)]
            V('input_modified', 'input directory of probe %d: %s %s (%s)' % (
                p, fn, 'created' if fn in created else ('deleted' if fn in deleted else 'changed'), w[-1:]), file=fn)
