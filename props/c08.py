"""C08 - Curated clusters get the right template provenance and waveforms."""
import shutil

import numpy as np

from gen.dataset import random_spec
from ref import templates as rt
from vmon.core import as_id, call, same, hkey, scratch_dir

ID = 'C08'
LEVEL = 'exploration'
MONITORS = ('M2', 'M6')
ANCHORS = ['phylib.io.model:TemplateModel.get_merge_map', 'phylib.io.model:TemplateModel.cluster_waveforms',
           'phylib.io.model:TemplateModel.get_cluster_mean_waveforms', 'phylib.io.model:TemplateModel._load_data',
           'phylib.io.model:TemplateModel.get_template_counts']
RULE = ('Each case = a generated dense dataset (3-20 channels, 1-3 shanks far apart or interleaved, with/without whitening, optional amplitude_threshold / n_closest_channels entries in params.py, id dtypes int32/uint16/uint32/int64, cluster ids occasionally jumping by 300 or 14000) whose '
        'spike_clusters come from a random history of 0-6 merges / splits / reassignments (to new, existing '
        'and far-away ids) applied to clusters = templates, producing empty ids, one-spike clusters and count '
        'ties; loaded with the real load_model. Judged: merge_map for every id 0..max, nan_idx, n_clusters, '
        'sparse_clusters.data per cluster (single template: unchanged template; several: spike-count weighted '
        'mean of the channel-restricted templates on the dominant template\'s channels, any tied template '
        'accepted as dominant provided the channel list of the cluster follows the same one; empty: zeros), get_cluster_mean_waveforms (unwhitened); uncurated datasets: '
        'cluster waveforms = template waveforms and n_clusters = n_templates, also when a template (first, '
        'middle or last) has no spikes. non-trivial = distinct datasets with >= 1 multi-template cluster and '
        '>= 1 empty id, or uncurated with a spikeless template.')
RULE += ' Added classes: in-memory curation (spike_clusters updated in place after loading) followed by get_cluster_mean_waveforms / get_merge_map / get_template_counts; all-zero and all-NaN (blanked at load) templates inside merged clusters; datasets shipping only whitening_mat_inv.npy.'
RULE += ' Cluster ids passed as NumPy scalars of rotating integer dtypes; get_merge_map() asked again after the caller wrote into its first result.'
RULE += ' Round 5: template_scaling in params.py; first curation of an uncurated dataset saved with save_spike_clusters and loaded again.'
RULE += ' Round 6: a cluster merged from 35 of 40 templates; a Kilosort-2 templates_ind.npy present.'
RULE += ' Round 7: float64 templates hold genuinely double values and single-template clusters are compared exactly; in-place curation of a freshly loaded uncurated model (live merge map, templates untouched), then save_spike_clusters(model.spike_clusters) and reload.'
RULE += ' Round 8: uint16 assignments with far ids and 300-template datasets made deterministic cases (guard against RNG drift).'
RULE += ' Round 11: every file of the dataset carrying one modification time; a 24000-spike cluster merged from two templates of which the minor one fires first.'
RULE += ' Round 12: probe tables; templates with exactly silent channels.'
RULE += ' Round 13: valid thresholded template requests (gen/poke) before the judged calls.'
EXHAUSTIVE = {'quick': False, 'thorough': False}
FLOORS = {'quick': {'evaluations': 1100, 'distinct_nontrivial': 400},
          'thorough': {'evaluations': 15000, 'distinct_nontrivial': 4000}}
ASSUMPTIONS = ['geometries are jittered (no distance ties) so that every template has one best-channel set',
               'atol 1e-6 relative (float64 averaging of float32 data)']
NSHARDS = 16


def plan(tier, seed):
    n = 1200 if tier == 'quick' else 20000
    return [{'shard': i, 'n': NSHARDS, 'seed': seed, 'cases': n // NSHARDS} for i in range(NSHARDS)]


def run_shard(desc, ctx):
    for i in range(desc['cases']):
        run_case({'seed': [desc['seed'], desc['shard'], i]}, ctx)


def chans(spec, W):
    best, req, allowed = rt.dense_channel_sets(spec, W, spec.notes.get('amplitude_threshold') or 0,
                                               spec.notes.get('n_closest_channels') or 12)
    return sorted(allowed)


def run_case(case, ctx):
    from phylib.io.model import load_model
    rng = np.random.default_rng(case['seed'])
    curated = rng.random() < 0.75
    opts = dict(nc=[3, 6, 13, 20][int(rng.integers(0, 4))], shanks=int(rng.integers(0, 4)),
                wm=bool(rng.random() < 0.7), nt=int(rng.integers(2, 7)), ns=int(rng.integers(8, 60)),
                clusters='curated' if curated else ['same', 'absent'][int(rng.integers(0, 2))],
                curation_ops=int(rng.integers(1, 7)),
                spikeless=['none', 'first', 'middle', 'last'][int(rng.integers(0, 4))], ncdat_extra=0,
                dtype_ids=['int32', 'uint16', 'uint32', 'int64'][int(rng.integers(0, 4))],
                far_ids=int(rng.choice([0, 0, 0, 0, 300, 14000])), interleave=bool(rng.random() < 0.3),
                flat_template=bool(rng.random() < 0.2), wmi_only=bool(rng.random() < 0.15))
    opts.update(dtype_amps=['float64', 'float32'][int(rng.integers(0, 2))],
                dtype_templates=['float32', 'float32', 'float64'][int(rng.integers(0, 3))],
                dtype_feat=['float32', 'float64'][int(rng.integers(0, 2))])
    opts['probes'] = case['seed'][-1] % 3 == 1            # a probe table says nothing about a template's channels (shanks do)
    opts['exact_amps'] = case['seed'][-1] % 5 == 2        # every template has an exactly silent channel and one at exactly half the peak
    if case['seed'][-1] % 25 == 7:
        # narrow id dtype with far-away cluster ids: products of ids beyond 16 bits, on every run
        opts.update(dtype_ids='uint16', far_ids=14000, nt=6, ns=max(opts['ns'], 40), clusters='curated', curation_ops=6, spikeless='none')
    elif case['seed'][-1] % 25 == 8:
        opts.update(dtype_ids='uint16', far_ids=0, nt=300, ns=900, nc=6, clusters='curated', curation_ops=6)
    if case['seed'][-1] % 25 == 9:
        opts.update(nt=40, ns=240, nc=[13, 20][case['seed'][-1] % 2], clusters='curated', far_ids=0, dtype_ids='int32')
    if case['seed'][-1] % 50 == 10:
        # a cluster of 24000 spikes merged from two templates with different channel neighbourhoods: the one that fires early
        # (drift) is not the one that contributes most spikes overall
        opts.update(nt=3, ns=24000, nc=20, clusters='same', far_ids=0, dtype_ids='int32', spikeless='none', shanks=0, flat_template=False)
    spec = random_spec(rng, **opts)
    if case['seed'][-1] % 50 == 10:
        st_ = np.ones(24000, dtype=spec.spike_templates.dtype)
        st_[:7000] = 0
        st_[7000:7300:3] = 2
        st_[-40:] = 2
        spec.spike_templates = st_
        sc_ = st_.copy()
        sc_[st_ < 2] = 5
        spec.spike_clusters = sc_
    if case['seed'][-1] % 25 == 9:
        # one big cluster merged from 35 of 40 templates (a 'noise' cluster)
        sc_ = spec.clusters.copy()
        sc_[np.isin(spec.spike_templates, np.arange(35))] = int(sc_.max()) + 3
        spec.spike_clusters = sc_
    if rng.random() < 0.3:
        spec.notes['amplitude_threshold'] = [0.5, 0.3][int(rng.integers(0, 2))]     # params.py options
    if rng.random() < 0.2:
        spec.notes['n_closest_channels'] = 4
    if rng.random() < 0.25:
        spec.notes['ks2_templates_ind'] = True
    if rng.random() < 0.2:
        spec.notes['template_scaling'] = [20.0, 0.5][int(rng.integers(0, 2))]      # every unwhitened waveform carries this factor
    opts['config'] = {k: spec.notes.get(k) for k in ('amplitude_threshold', 'n_closest_channels')}
    curated = spec.curated
    st, sc = spec.spike_templates.astype(np.int64), spec.clusters.astype(np.int64)
    mm, nan_idx = rt.merge_map(spec)
    multi = [c for c, v in mm.items() if len(v) > 1]
    nontriv = (curated and multi and nan_idx) or (not curated and opts['spikeless'] != 'none')
    desc = {'seed': case['seed'], 'opts': opts, 'spike_templates': st.tolist() if len(st) < 3000 else 'see seed', 'spike_clusters': sc.tolist() if len(sc) < 3000 else 'see seed'}
    ctx.count(1, key=hkey(tuple(case['seed'])), nontrivial=bool(nontriv),
              cell=('curated' if curated else 'uncurated', 'spikeless_' + opts['spikeless'], 'nc%d' % opts['nc']))
    ctx.sample({'opts': opts, 'merge_map': {str(k): v for k, v in mm.items()}, 'nan_idx': nan_idx}, every=29)
    f = {'curated': bool(curated), 'spikeless': opts['spikeless']}
    d = scratch_dir('c08_')
    try:
        params_ = spec.write(d)
        import os
        if case['seed'][-1] % 4 == 1:
            # the dataset was restored from an archive: every file carries the same modification time (and the cluster and
            # template files have the same size anyway)
            for fn_ in os.listdir(d):
                if os.path.isfile(os.path.join(d, fn_)):
                    os.utime(os.path.join(d, fn_), (1.6e9, 1.6e9))
        r = call(load_model, params_)
        if not r.ok:
            ctx.violation('raised', desc, 'load_model raised %r' % r.exc, dict(f, exc=r.exc_name), tb=r.tb)
            return
        m = r.value
        try:
            if case['seed'][-1] % 2:
                from gen.poke import poke
                poke(m, ctx)
            T = spec.templates
            nt, nsw, nc = T.shape
            if not curated:
                if m.n_clusters != nt:
                    ctx.violation('n_clusters', desc, 'uncurated: n_clusters=%r but %d templates' % (m.n_clusters, nt), f)
                dd = same(np.asarray(m.sparse_clusters.data), T, dtype=False)
                if dd:
                    ctx.violation('cluster_waveform', desc, 'uncurated: cluster waveforms != template waveforms: ' + dd, f)
                if case['seed'][-1] % 2 == 0:
                    # history: first session on an uncurated dataset (spike_clusters.npy possibly absent), merges and
                    # splits are saved with save_spike_clusters, the dataset is loaded again: provenance as saved
                    import copy
                    import os
                    from gen.dataset import curate
                    new = curate(np.random.default_rng(list(case['seed']) + [8]), st.copy(), 3).astype(np.int32)
                    if not np.array_equal(new, st):
                        ctx.cell('curated_saved_reloaded')
                        f2 = dict(f, saved_and_reloaded=True)
                        if case['seed'][-1] % 4 == 0:
                            # curation done in place on the model's own array, which is then handed to save_spike_clusters
                            ra = call(lambda: m.spike_clusters.__setitem__(slice(None), new))
                            rg_ = call(m.get_merge_map)
                            spec2_ = copy.copy(spec)
                            spec2_.spike_clusters = new
                            mm_live, nan_live = rt.merge_map(spec2_)
                            if ra.ok and rg_.ok:
                                got_live = {int(k): sorted(int(x) for x in v) for k, v in rg_.value[0].items()}
                                if got_live != mm_live or same(np.asarray(m.spike_templates).astype(np.int64), st, dtype=False):
                                    ctx.violation('merge_map', desc, 'after an in-place curation of a freshly loaded uncurated model: get_merge_map() %r, expected %r; '
                                                  'spike_templates %s' % (got_live, mm_live, 'changed' if same(np.asarray(m.spike_templates).astype(np.int64), st, dtype=False) else 'unchanged'),
                                                  dict(f2, in_place=True))
                            rs = call(lambda: m.save_spike_clusters(m.spike_clusters))
                        else:
                            rs = call(m.save_spike_clusters, new)
                        call(m.close)
                        r2 = call(load_model, os.path.join(d, 'params.py'))
                        if not rs.ok or not r2.ok:
                            ctx.violation('raised', desc, 'save_spike_clusters / reload raised %r' % (rs.exc or r2.exc,), dict(f2, exc=(rs.exc_name or r2.exc_name)), tb=rs.tb or r2.tb)
                            return
                        spec2 = copy.copy(spec)
                        spec2.spike_clusters = new
                        mm2, nan2 = rt.merge_map(spec2)
                        m2 = r2.value
                        try:
                            got2 = {int(k): sorted(int(x) for x in v) for k, v in m2.merge_map.items()}
                            if got2 != mm2 or sorted(int(x) for x in np.asarray(m2.nan_idx).tolist()) != nan2:
                                ctx.violation('merge_map', desc, 'after saving a curation %r and reloading: merge_map %r / nan_idx %r, expected %r / %r' % (
                                    new.tolist()[:30], got2, np.asarray(m2.nan_idx).tolist(), mm2, nan2), f2)
                            if same(np.asarray(m2.spike_templates).astype(np.int64), st, dtype=False):
                                ctx.violation('merge_map', desc, 'spike_templates changed by saving the clusters', f2)
                        finally:
                            call(m2.close)
                return
            # provenance
            got_mm = {int(k): sorted(int(x) for x in v) for k, v in m.merge_map.items()}
            if got_mm != mm:
                ctx.violation('merge_map', desc, 'merge_map %r != %r' % (got_mm, mm), f)
            if sorted(int(x) for x in np.asarray(m.nan_idx).tolist()) != nan_idx:
                ctx.violation('nan_idx', desc, 'nan_idx %r != %r' % (np.asarray(m.nan_idx).tolist(), nan_idx), f)
            if m.n_clusters != int(sc.max()) + 1:
                ctx.violation('n_clusters', desc, 'n_clusters=%r, max cluster id %d' % (m.n_clusters, sc.max()), f)
            # the caller writes into what get_merge_map() returned; a second call must give the provenance again
            rg = call(m.get_merge_map)
            if rg.ok:
                mmg, nidx = rg.value
                for v in mmg.values():
                    if isinstance(v, np.ndarray) and v.flags.writeable and v.size:
                        v[...] = 0
                    elif isinstance(v, list):
                        del v[:]
                if isinstance(nidx, np.ndarray) and nidx.flags.writeable and nidx.size:
                    nidx[...] = 0
                ctx.mon('returned_merge_map_modified')
                rg = call(m.get_merge_map)
                if rg.ok:
                    got2 = {int(k): sorted(int(x) for x in v) for k, v in rg.value[0].items()}
                    if got2 != mm or sorted(int(x) for x in np.asarray(rg.value[1]).tolist()) != nan_idx:
                        ctx.violation('merge_map', desc, 'get_merge_map() after the caller modified an earlier result: %r / %r != %r / %r' % (
                            got2, np.asarray(rg.value[1]).tolist(), mm, nan_idx), dict(f, after_caller_modification=True))
            D = np.asarray(m.sparse_clusters.data)
            if D.shape != (int(sc.max()) + 1, nsw, nc):
                ctx.violation('cluster_waveform', desc, 'sparse_clusters.data shape %r' % (D.shape,), f)
                return
            own = {t: chans(spec, T[t]) for t in range(nt)}
            for c, ts in mm.items():
                if not ts:
                    exp = [np.zeros((nsw, nc))]
                elif len(ts) == 1:
                    exp = [T[ts[0]].astype(np.float64)]
                    if not np.array_equal(np.asarray(D[c], dtype=np.float64), exp[0], equal_nan=True):
                        ctx.violation('cluster_waveform', desc, 'cluster %d stems from template %d alone but does not carry its waveform unchanged (max difference %r)' % (
                            c, ts[0], float(np.nanmax(np.abs(np.asarray(D[c], dtype=np.float64) - exp[0])))), dict(f, n_templates=1, exact=True))
                        break
                else:
                    cnt = np.array([(st[sc == c] == t).sum() for t in ts], dtype=np.float64)
                    acc = np.zeros((nsw, nc))
                    for t, n_ in zip(ts, cnt):
                        W = np.zeros((nsw, nc))
                        W[:, own[t]] = T[t][:, own[t]]
                        acc += n_ * W
                    acc /= cnt.sum()
                    exp = []
                    for t, n_ in zip(ts, cnt):
                        if n_ == cnt.max():
                            E = np.zeros((nsw, nc))
                            E[:, own[t]] = acc[:, own[t]]
                            exp.append(E)
                scale = max(1.0, np.abs(exp[0]).max())
                if len(exp) > 1:
                    # count tie: any tied template may be the dominant one, but the model must make the same
                    # choice for the cluster's waveform and for the cluster's channel list
                    rc = call(m.get_cluster_channels, as_id(c, c))
                    which = [t for t, n_ in zip(ts, cnt) if n_ == cnt.max()]
                    t_match = set(t for t, E in zip(which, exp) if np.allclose(D[c], E, atol=1e-6 * scale, rtol=1e-6))
                    if rc.ok:
                        got_ch = sorted(int(x) for x in np.asarray(rc.value).tolist())
                        t_chan = set(t for t in which if got_ch == sorted(chans(spec, rt.unwhitened(spec, t, True))))
                        if t_match and t_chan and not (t_match & t_chan):
                            ctx.violation('dominant_inconsistent', desc,
                                          'cluster %d (templates %r, tied counts): its waveform follows tied template(s) %r but '
                                          'get_cluster_channels follows %r' % (c, ts, sorted(t_match), sorted(t_chan)), f)
                if not any(np.allclose(D[c], E, atol=1e-6 * scale, rtol=1e-6) for E in exp):
                    ctx.violation('cluster_waveform', desc,
                                  'cluster %d (templates %r): waveform differs from the %s' % (
                                      c, ts, 'weighted mean on the dominant channels' if len(ts) > 1 else
                                      ('template' if ts else 'zeros')), dict(f, n_templates=min(len(ts), 2)))
                    break
            # public mean waveforms (unwhitened)
            U = {t: rt.unwhitened(spec, t, True) * (spec.notes.get('template_scaling') or 1.0) for t in range(nt)}
            ownU = {t: chans(spec, U[t]) for t in range(nt)}
            for c in multi[:3]:
                ts = mm[c]
                cnt = np.array([(st[sc == c] == t).sum() for t in ts], dtype=np.float64)
                rr = call(m.get_cluster_mean_waveforms, as_id(c, c + 1))
                if not rr.ok:
                    ctx.violation('raised', desc, 'get_cluster_mean_waveforms raised %r' % rr.exc, dict(f, exc=rr.exc_name), tb=rr.tb)
                    continue
                acc = np.zeros((nsw, nc))
                for t, n_ in zip(ts, cnt):
                    W = np.zeros((nsw, nc))
                    W[:, ownU[t]] = U[t][:, ownU[t]]
                    acc += n_ * W
                acc /= cnt.sum()
                gch = [int(x) for x in np.asarray(rr.value.channel_ids).tolist()]
                ok = False
                for t, n_ in zip(ts, cnt):
                    if n_ == cnt.max() and sorted(gch) == ownU[t]:
                        if np.allclose(np.asarray(rr.value.mean_waveforms), acc[:, gch], atol=1e-5, rtol=1e-5):
                            ok = True
                if not ok:
                    ctx.violation('mean_waveforms', desc, 'get_cluster_mean_waveforms(%d) is not the weighted mean on the '
                                  'dominant template\'s channels (templates %r, counts %r)' % (c, ts, cnt.tolist()), f)
            # history: curation continues in memory (in-place update of spike_clusters), then the mean waveform
            # of the cluster that received the spikes is requested without reloading
            if multi:
                c = multi[0]
                others = np.nonzero(~np.isin(st, mm[c]))[0]
                if len(others):
                    move = others[:3]
                    rr = call(lambda: m.spike_clusters.__setitem__(move, c))
                    sc2 = sc.copy()
                    sc2[move] = c
                    ts2 = sorted(set(st[sc2 == c].tolist()))
                    cnt2 = np.array([(st[sc2 == c] == t).sum() for t in ts2], dtype=np.float64)
                    rr = call(m.get_cluster_mean_waveforms, as_id(c, c + 1), True)
                    ctx.cell('after_inplace_curation')
                    if not rr.ok:
                        ctx.violation('raised', desc, 'get_cluster_mean_waveforms after an in-place update raised %r' % rr.exc,
                                      dict(f, exc=rr.exc_name, after_inplace_update=True), tb=rr.tb)
                    else:
                        acc = np.zeros((nsw, nc))
                        for t, n_ in zip(ts2, cnt2):
                            W = np.zeros((nsw, nc))
                            W[:, ownU[t]] = U[t][:, ownU[t]]
                            acc += n_ * W
                        acc /= cnt2.sum()
                        gch = [int(x) for x in np.asarray(rr.value.channel_ids).tolist()]
                        ok = any(n_ == cnt2.max() and sorted(gch) == ownU[t] and
                                 np.allclose(np.asarray(rr.value.mean_waveforms), acc[:, gch], atol=1e-5, rtol=1e-5)
                                 for t, n_ in zip(ts2, cnt2))
                        if not ok:
                            ctx.violation('mean_waveforms', desc, 'after moving spikes %r into cluster %d in memory, its mean waveform is '
                                          'not the weighted mean over templates %r' % (move.tolist(), c, ts2), dict(f, after_inplace_update=True))
        finally:
            call(m.close)
    finally:
        shutil.rmtree(d, ignore_errors=True)
