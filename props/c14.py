"""C14 - Exported ALF values equal the physical quantities they name.
Shares the conversion workload of props/c13.py (plus merged datasets produced by the real Merger)."""
import os

import numpy as np

from props import c11, c13
from ref import templates as rt
from vmon.core import call, same

ID = 'C14'
LEVEL = 'exploration'
MONITORS = c13.MONITORS
ANCHORS = ['phylib.io.alf:EphysAlfCreator.make_template_and_spikes_objects',
           'phylib.io.alf:EphysAlfCreator.make_cluster_objects', 'phylib.io.alf:EphysAlfCreator.make_depths',
           'phylib.io.alf:EphysAlfCreator.make_channel_objects', 'phylib.io.model:TemplateModel.get_amplitudes_true',
           'phylib.io.model:TemplateModel.get_depths', 'phylib.io.model:TemplateModel._waveform_durations',
           'phylib.io.model:TemplateModel._channels']
RULE = ('C13\'s generated datasets plus datasets produced by the REAL Merger from 1-4 generated probes with '
        'permuted channel maps (pipeline merge -> load -> export), geometries with distance ties. C14 oracle '
        'on the exported files: templates.waveforms / clusters.waveforms = unwhitened, amplitude-rescaled '
        'waveform x unit factor on the listed channels; listed channels = nearest (L1) channels on the peak '
        'channel\'s probe, peak first, non-decreasing distance (tie-relaxed); spikes / templates / clusters '
        'amps carry the factor; clusters.depths = depth of the peak channel with NaN exactly at ids without '
        'spikes; spikes.depths = feature-weighted depths (or the cluster depth without features); '
        'clusters.peakToTrough in ms; channels.rawInd of a merged dataset = each probe\'s original channel '
        'map. non-trivial = distinct exports of merged datasets, or with distance ties, or with spikeless ids.')
RULE += ' Round 5 (shared build): 50000 / 100000 spikes with features; positions offset by 2**24.'
RULE += " Round 6: where the files determine a curated cluster's waveform uniquely, the export is judged against that (not against the model's own cluster waveforms)."
RULE += ' Round 8: spikes whose first-PC features are all <= 0 (depth NaN by the formula); templates alternating between two clusters in time.'
EXHAUSTIVE = {'quick': False, 'thorough': False}
FLOORS = {'quick': {'evaluations': 750, 'distinct_nontrivial': 400},
          'thorough': {'evaluations': 11000, 'distinct_nontrivial': 5000}}
ASSUMPTIONS = c13.ASSUMPTIONS + ['for an id without spikes the rescaling amplitude is NaN: NaN or zero waveform '
                                 'values are both accepted there; shapes, channel lists, amps (NaN) and depths are '
                                 'still judged', 'rtol 1e-4 (float32 files)',
                                 'when a probe has fewer channels than the list length only the same-probe part of '
                                 'the list is judged']
NSHARDS = c13.NSHARDS


def plan(tier, seed):
    n, nm = (480, 320) if tier == 'quick' else (10000, 2000)
    return [{'shard': i, 'n': NSHARDS, 'seed': seed, 'cases': n // NSHARDS, 'merged': nm // NSHARDS}
            for i in range(NSHARDS)]


def run_shard(desc, ctx):
    for i in range(desc['cases']):
        run_case({'seed': [desc['seed'], desc['shard'], i], 'source': 'generated'}, ctx)
    for i in range(desc['merged']):
        run_case({'seed': [desc['seed'], desc['shard'], i, 14], 'source': 'merged'}, ctx)
    if desc['shard'] < 2:
        run_case({'seed': [desc['seed'], desc['shard'], 555], 'source': 'generated', 'batch': True}, ctx)


def run_case(case, ctx):
    c13.run_case(case, ctx, which='C14')


class MergedView(object):
    """Ground truth of a merged dataset, assembled from the probe specs (not from the merged files)."""
    def __init__(self, specs):
        self.specs = specs
        ncs = [s.n_channels for s in specs]
        nts = [s.n_templates for s in specs]
        coff = np.r_[0, np.cumsum(ncs)].astype(int)
        toff = np.r_[0, np.cumsum(nts)].astype(int)
        self.names = 'ks'
        self.sample_rate = specs[0].sample_rate
        times = [s.spike_samples.astype(np.int64) for s in specs]
        probe_of = np.concatenate([np.full(len(t), p) for p, t in enumerate(times)])
        idx_in = np.concatenate([np.arange(len(t)) for t in times])
        order = np.lexsort((idx_in, probe_of, np.concatenate(times)))
        self.spike_samples = np.concatenate(times)[order]
        self.amplitudes = np.concatenate([s.amplitudes for s in specs])[order]
        self.spike_templates = np.concatenate([s.spike_templates.astype(np.int64) + toff[p] for p, s in enumerate(specs)])[order]
        clu_off = np.r_[0, np.cumsum([int(s.clusters.max()) + 1 for s in specs])].astype(int)
        self._clusters = np.concatenate([s.clusters.astype(np.int64) + clu_off[p] for p, s in enumerate(specs)])[order]
        NC, NT, nsw = int(coff[-1]), int(toff[-1]), specs[0].nsw
        self.templates = np.zeros((NT, nsw, NC), dtype=np.float32)
        for p, s in enumerate(specs):
            self.templates[toff[p]:toff[p + 1], :, coff[p]:coff[p + 1]] = s.templates
        self.probes = np.concatenate([np.full(n, p) for p, n in enumerate(ncs)])
        self.shanks = None
        self.orig_maps = [s.channel_map.astype(np.int64) for s in specs]
        pos = []
        xo = 0.
        for s in specs:
            P = s.positions.copy()
            P[:, 0] += xo
            xo = 2. * P[:, 0].max() - P[:, 0].min()
            pos.append(P)
        self.positions = np.concatenate(pos)      # only distances inside a probe are used
        from scipy.linalg import block_diag
        # the merged directory holds a matrix only when every probe has one (C12)
        self.wm = block_diag(*[s.wm for s in specs]) if all(s.wm is not None for s in specs) else None
        self.wmi_file = block_diag(*[s.wmi_file for s in specs]) if all(s.wmi_file is not None for s in specs) else None
        self.pc_features = None
        self.pc_feature_ind = None
        self.raw = None
        self.notes = {'merged': True}
        self.n_channels = NC
        self.n_templates = NT
        self.n_spikes = len(self.spike_samples)
        self.nsw = nsw

    @property
    def clusters(self):
        return self._clusters.astype(np.int32)

    @property
    def curated(self):
        return not np.array_equal(self._clusters, self.spike_templates)

    @property
    def wmi_eff(self):
        if self.wmi_file is not None:
            return self.wmi_file
        return np.linalg.inv(self.wm) if self.wm is not None else np.eye(self.n_channels)


def build_merged(case, d):
    from phylib.io.merge import Merger
    specs, info = c11.build({'seed': case['seed'], 'finite_only': True})
    subdirs = []
    for p, s in enumerate(specs):
        sd = os.path.join(d, 'probe%d' % p)
        s.write(sd)
        subdirs.append(sd)
    src = os.path.join(d, 'src')
    r = call(lambda: Merger(subdirs, src).merge())
    if not r.ok:
        return None, None             # merge failures are C11/C12's business
    call(r.value.close)
    rng = np.random.default_rng(case['seed'] + [1])
    view = MergedView(specs)
    opts = {'features': 'none', 'k': info['k'], 'spikeless': 'mixed', 'ties': False}
    return src, (view, opts, ['', 'lbl'][int(rng.integers(0, 2))], [1, 2.5][int(rng.integers(0, 2))])


def oracle_c14(ctx, desc, f0, spec, src, out, m, label, factor, case):
    def V(kind, msg, **kw):
        ctx.violation(kind, desc, msg, dict(f0, **kw))
    out = str(out)
    table, _bad = c13.alf_files(out, label)

    def load(obj, attr):
        p = table.get((obj, attr))
        return None if p is None else np.load(p)
    T = spec.templates.astype(np.float64)
    wmi = spec.wmi_eff
    st = spec.spike_templates.astype(np.int64)
    sc = spec.clusters.astype(np.int64)
    amps = spec.amplitudes
    probes = spec.probes if spec.probes is not None else np.zeros(spec.n_channels, int)
    pos = spec.positions
    curated = spec.curated
    Dc = np.asarray(m.sparse_clusters.data, dtype=np.float64)      # cluster waveforms: decided by C08 ...
    if curated and case.get('source') != 'merged' and getattr(spec, 'template_ind', None) is None:
        # ... except where the files determine them uniquely (no count tie, no distance tie): there the export is
        # judged against the weighted mean of the cluster's templates computed from the files
        try:
            Dexp, sure = rt.cluster_waveforms_expected(spec)
            if Dexp.shape == Dc.shape:
                Dc = Dc.copy()
                Dc[sure] = Dexp[sure]
                ctx.mon('cluster_waveforms_from_files', int(sure.sum()))
        except Exception:
            pass
    ncl = Dc.shape[0]
    ncw = min(12, spec.n_channels)
    # ---- waveforms / channels / amps for templates and clusters ----------------------------------------------
    for obj, data, spikes in (('templates', T, st), ('clusters', Dc, sc)):
        sa, phys, per_id = rt.amps_true(data, wmi, spikes, amps, factor)
        W = load(obj, 'waveforms')
        C = load(obj, 'waveformsChannels')
        A = load(obj, 'amps')
        n_wav = data.shape[0]
        fo = {'object': obj}
        if W is None or C is None or A is None:
            V('file_missing', '%s.waveforms / waveformsChannels / amps missing' % obj, **fo)
            continue
        if W.shape != (n_wav, data.shape[1], ncw) or C.shape != (n_wav, ncw) or A.shape != (n_wav,):
            V('value_shape', '%s: waveforms %r channels %r amps %r' % (obj, W.shape, C.shape, A.shape), **fo)
            continue
        dd = same(A, per_id, dtype=False, rtol=1e-4)
        if dd:
            V('amps', '%s.amps (mean scaled amplitude x factor, NaN for spikeless ids): %s' % (obj, dd), **fo)
        pk_all = rt.ptp_axis1(data).argmax(axis=1)
        for i in range(n_wav):
            peak = int(pk_all[i])
            d, n_eff, must, may = rt.l1_nearest(pos, probes, peak, ncw)
            ch = C[i].astype(np.int64)
            judged = ch[:n_eff]
            if ch[0] != peak:
                V('channel_list', '%s %d: first listed channel %d is not the peak channel %d' % (obj, i, ch[0], peak), **fo)
                break
            if len(set(judged.tolist())) != n_eff or not (must <= set(judged.tolist()) <= may):
                V('channel_list', '%s %d: listed channels %s are not the %d nearest same-probe channels of %d '
                  '(required %s, allowed %s)' % (obj, i, judged.tolist(), n_eff, peak, sorted(must), sorted(may)), **fo)
                break
            dj = d[judged]
            if (np.diff(dj) < -1e-9 * max(1., dj.max())).any():
                V('channel_list', '%s %d: listed channels %s not by increasing distance' % (obj, i, judged.tolist()), **fo)
                break
            has_spikes = bool((spikes == i).any())
            exp = phys[i][:, ch]
            got = W[i].astype(np.float64)
            if has_spikes:
                scale = max(1e-30, np.abs(exp).max())
                if not np.allclose(got, exp, rtol=1e-4, atol=1e-5 * scale):
                    V('waveform_values', '%s %d: exported waveform is not the unwhitened, amplitude-rescaled waveform x '
                      'factor on its listed channels' % (obj, i), **fo)
                    break
            elif not (np.isnan(got).all() or (got == 0).all()):
                V('waveform_values', '%s %d has no spikes but a finite non-zero waveform' % (obj, i), **fo)
                break
    # ---- spikes.amps -------------------------------------------------------------------------------------------------
    sa, _, _ = rt.amps_true(T, wmi, st, amps, factor)
    SA = load('spikes', 'amps')
    if SA is not None:
        dd = same(SA, sa, dtype=False, rtol=1e-4)
        if dd:
            V('amps', 'spikes.amps: ' + dd, object='spikes')
    # ---- depths / durations ---------------------------------------------------------------------------------------------
    pkc = rt.ptp_axis1(Dc).argmax(axis=1)
    CD = load('clusters', 'depths')
    exp_cd = pos[pkc, 1].astype(np.float64)
    empty = np.array([not (sc == i).any() for i in range(ncl)])
    exp_cd[empty] = np.nan
    if CD is not None and CD.shape == exp_cd.shape:
        fin_at_empty = empty & ~np.isnan(CD)
        if fin_at_empty.any():
            ctx.violation('cluster_value_not_nan_for_spikeless_id', desc,
                          'clusters.depths is finite (%r) at id %d which has no spikes' % (
                              float(CD[fin_at_empty][0]), int(np.nonzero(fin_at_empty)[0][0])), dict(f0, file='clusters.depths'))
        dd = same(CD[~empty], exp_cd[~empty], dtype=False, rtol=1e-6)
        if dd or np.isnan(CD[~empty]).any():
            V('depths', 'clusters.depths: %s' % (dd or 'NaN at an id that has spikes'), file='clusters.depths')
    elif CD is not None:
        V('value_shape', 'clusters.depths shape %r' % (CD.shape,), file='clusters.depths')
    SD = load('spikes', 'depths')
    if SD is not None:
        if getattr(spec, 'pc_features', None) is None:
            exp_sd = exp_cd[sc]
        else:
            F = spec.pc_features[:, 0, :].astype(np.float64)
            exp_sd = np.full(spec.n_spikes, np.nan)
            for i in range(spec.n_spikes):
                cols = spec.pc_feature_ind[st[i]].astype(np.int64) if spec.pc_feature_ind is not None else np.arange(F.shape[1])
                w = np.maximum(F[i], 0) ** 2
                if w.sum() > 0:
                    exp_sd[i] = (pos[cols, 1] * w).sum() / w.sum()
        dd = same(SD, exp_sd, dtype=False, rtol=1e-4, atol=1e-5 * max(1., float(np.abs(pos[:, 1]).max())))
        if dd:
            V('depths', 'spikes.depths: ' + dd, file='spikes.depths', features=getattr(spec, 'pc_features', None) is not None)
    PT = load('clusters', 'peakToTrough')
    if PT is not None and PT.shape == (ncl,):
        dur = np.array([(Dc[i, :, pkc[i]].argmax() - Dc[i, :, pkc[i]].argmin()) / spec.sample_rate * 1e3 for i in range(ncl)])
        ok = ~empty
        dd = same(PT[ok], dur[ok], dtype=False, rtol=1e-9)
        if dd:
            V('durations', 'clusters.peakToTrough (ms): ' + dd, file='clusters.peakToTrough')
    # ---- raw channel indices --------------------------------------------------------------------------------------------
    RI = load('channels', 'rawInd')
    maps = getattr(spec, 'orig_maps', None) or spec.notes.get('orig_maps')
    if RI is not None:
        if maps is not None:
            exp = np.concatenate([np.asarray(x, dtype=np.int64) for x in maps])
            if spec.notes.get('rawind_expected') is not None:
                exp = np.asarray(spec.notes['rawind_expected'], dtype=np.int64)
            dd = same(RI, exp, dtype=False)
            if dd:
                V('raw_channel_indices', 'channels.rawInd does not give each probe its original channel map: %s (%d probes)' % (
                    dd, len(maps)), file='channels.rawInd', n_probes=min(len(maps), 3))
        elif spec.probes is None or len(set(np.asarray(spec.probes).tolist())) == 1:
            dd = same(RI, spec.channel_map, dtype=False)
            if dd:
                V('raw_channel_indices', 'channels.rawInd of a single-probe dataset is not its channel map: ' + dd,
                  file='channels.rawInd', n_probes=1)
