"""C12 - Merged channel and template arrays are block-structured by probe.
Shares the merge workload of props/c11.py; only the oracle differs."""
import os

import numpy as np
from scipy.linalg import block_diag

from props import c11
from vmon.core import call, same

ID = 'C12'
LEVEL = 'exploration'
MONITORS = c11.MONITORS
ANCHORS = ['phylib.io.merge:Merger.write_channel_data', 'phylib.io.merge:Merger.write_channel_positions',
           'phylib.io.merge:Merger.write_templates', 'phylib.io.merge:Merger.write_template_data',
           'phylib.io.merge:Merger.write_misc', 'phylib.io.merge:Merger.write_params']
RULE = ('Same generated merges as C11 (1-4 probes, channel counts 2-7 and template counts 2-6 drawn '
        'independently, permuted channel maps, index tables int32/uint32/int64 or a different dtype per probe, occasionally a non-last probe with 70 or 130 templates, whitening / similarity '
        'matrices in all / some / none of the probes, templates without spikes). C12 oracle on the output '
        'files: channel_probe labels and contiguous channel blocks in input order; geometry of each block = '
        'input geometry + one x translation, blocks disjoint in x; template (k, t) found at the row its '
        'renumbered id points to, equal to the input waveform on block k and zero elsewhere; whitening and '
        'similarity = block-diagonal of the inputs when written; pc_feature_ind shifted by the start of the '
        'channel block, template_feature_ind by the template offset; params keep the rate and sum '
        'n_channels_dat. non-trivial = distinct merges with >= 3 probes of pairwise different channel and '
        'template counts, or >= 2 probes with unsigned index tables.')
RULE += ' Added classes (shared workload): Fortran-ordered templates.npy / matrices in any probe incl. the first; NaN / inf samples in the last template of a probe (must not leak into other blocks); fractional sampling rates; folder names as in C11.'
RULE += ' Round 8 (shared workload): the first probe re-sorted (other template / channel counts) between two merges of one Merger; a signal-free last template of the last probe (uncurated merges only).'
RULE += ' Round 10 (shared workload, plus): a 260-probe merge.'
EXHAUSTIVE = {'quick': False, 'thorough': False}
FLOORS = {'quick': {'evaluations': 950, 'distinct_nontrivial': 200},
          'thorough': {'evaluations': 15000, 'distinct_nontrivial': 3000}}
ASSUMPTIONS = c11.ASSUMPTIONS + ['when a matrix is missing in some probe the statement fixes no output: only "if '
                                 'the file is written it is the block-diagonal of all inputs" is judged',
                                 'the raw indices stored in the merged channel_map are only required to keep each '
                                 "probe's block in input order up to a per-probe constant"]
NSHARDS = c11.NSHARDS
plan = c11.plan


def run_shard(desc, ctx):
    for i in range(desc['cases']):
        run_case({'seed': [desc['seed'], desc['shard'], i]}, ctx)
    if desc['shard'] == 9:
        run_case({'seed': [desc['seed'], desc['shard'], 262626], 'many': 260}, ctx)       # more probes than a byte can number


def run_case(case, ctx):
    c11.run_case(case, ctx, which='C12')


def oracle_c12(ctx, desc, f0, specs, out, m, info):
    def V(kind, msg, **kw):
        ctx.violation(kind, desc, msg, dict(f0, **kw))

    def load(name):
        return np.load(os.path.join(out, name))
    k = len(specs)
    ncs = [s.n_channels for s in specs]
    nts = [s.n_templates for s in specs]
    coff = np.r_[0, np.cumsum(ncs)].astype(int)
    NC, NT = int(coff[-1]), int(sum(nts))
    # ---- channels --------------------------------------------------------------------------------
    rr = call(load, 'channel_probe.npy')
    exp = np.concatenate([np.full(n, p) for p, n in enumerate(ncs)])
    if not rr.ok or same(rr.value.squeeze(), exp, dtype=False):
        V('channel_blocks', 'channel_probe.npy: %s' % (rr.exc if not rr.ok else same(rr.value.squeeze(), exp, dtype=False)), file='channel_probe.npy')
    rr = call(load, 'channel_map.npy')
    if not rr.ok or rr.value.squeeze().shape != (NC,):
        V('channel_blocks', 'channel_map.npy unreadable or of wrong length', file='channel_map.npy')
    else:
        cm = rr.value.squeeze().astype(np.int64)
        for p, s in enumerate(specs):
            dlt = cm[coff[p]:coff[p + 1]] - s.channel_map.astype(np.int64)
            if len(set(dlt.tolist())) != 1:
                V('channel_blocks', 'channel_map block of probe %d is not the input map plus a constant' % p, file='channel_map.npy')
                break
    rr = call(load, 'channel_positions.npy')
    if not rr.ok or rr.value.shape != (NC, 2):
        V('geometry', 'channel_positions.npy unreadable or of wrong shape', file='channel_positions.npy')
    else:
        P = rr.value
        prev_max = -np.inf
        for p, s in enumerate(specs):
            B = P[coff[p]:coff[p + 1]]
            dx = B[:, 0] - s.positions[:, 0]
            if not np.allclose(B[:, 1], s.positions[:, 1]) or not np.allclose(dx, dx[0], atol=1e-9 * max(1, abs(dx[0]))):
                V('geometry', 'probe %d: merged geometry is not the input geometry translated along x' % p, file='channel_positions.npy')
                break
            if B[:, 0].min() <= prev_max:
                V('geometry', 'probe %d overlaps the previous probe in x (min %r <= previous max %r)' % (p, B[:, 0].min(), prev_max),
                  file='channel_positions.npy')
                break
            prev_max = B[:, 0].max()
    # ---- template offsets as used by the renumbered spike ids ------------------------------------------
    toff = None
    rr = call(lambda: load('spike_templates.npy').squeeze().astype(np.int64))
    if rr.ok:
        # recover per-probe offsets: spikes are merged stably, recompute the order like C11
        times_l = [s.spike_samples.astype(np.int64) for s in specs]
        probe_of = np.concatenate([np.full(len(t), p) for p, t in enumerate(times_l)])
        idx_in = np.concatenate([np.arange(len(t)) for t in times_l])
        order = np.lexsort((idx_in, probe_of, np.concatenate(times_l)))
        orig = np.concatenate([s.spike_templates.astype(np.int64) for s in specs])[order]
        if rr.value.shape == orig.shape:
            diff = rr.value - orig
            offs = []
            for p in range(k):
                dp = set(diff[probe_of[order] == p].tolist())
                offs.append(dp.pop() if len(dp) == 1 else None)
            if None not in offs:
                toff = offs
    if toff is None:
        toff = np.r_[0, np.cumsum(nts)][:-1].astype(int).tolist()   # C11 reports the renumbering itself
    # ---- templates -----------------------------------------------------------------------------------
    rr = call(load, 'templates.npy')
    nsw = specs[0].nsw
    if not rr.ok or rr.value.shape != (NT, nsw, NC):
        V('template_blocks', 'templates.npy: %s' % (rr.exc if not rr.ok else 'shape %r != %r' % (rr.value.shape, (NT, nsw, NC))),
          file='templates.npy')
    else:
        TT = rr.value
        done = False
        for p, s in enumerate(specs):
            for t in range(s.n_templates):
                row = toff[p] + t
                E = np.zeros((nsw, NC), dtype=TT.dtype)
                E[:, coff[p]:coff[p + 1]] = s.templates[t]
                if row >= NT or same(TT[row], E, dtype=False):
                    where = 'row %d' % row
                    V('template_blocks', 'template %d of probe %d (%s of templates.npy, the id its spikes carry) is not '
                      'the input waveform on channel block [%d, %d) with zeros elsewhere' % (t, p, where, coff[p], coff[p + 1]),
                      file='templates.npy', probe_ge_2=p >= 2,
                      spikeless_last_before=any(sp.notes.get('spikeless') == 'last' for sp in specs[:p]))
                    done = True
                    break
            if done:
                break
    # ---- matrices ---------------------------------------------------------------------------------------
    for fn, attr in (('whitening_mat.npy', 'wm'), ('similar_templates.npy', 'similar_templates'),
                     ('whitening_mat_inv.npy', 'wmi_file')):
        path = os.path.join(out, fn)
        mats = [getattr(s, attr) for s in specs]
        if os.path.exists(path):
            if any(x is None for x in mats):
                if attr != 'wmi_file':      # load_model() of the merged directory itself creates the inverse
                    V('matrix_blocks', '%s written although some probe has no such matrix' % fn, file=fn)
                continue
            E = block_diag(*mats)
            rr = call(np.load, path)
            dd = same(rr.value, E, dtype=False) if rr.ok else repr(rr.exc)
            if dd:
                V('matrix_blocks', '%s is not the block-diagonal of the inputs: %s' % (fn, dd), file=fn)
        elif all(x is not None for x in mats) and attr != 'wmi_file':
            V('matrix_blocks', '%s missing although every probe has one' % fn, file=fn)
    # ---- index tables --------------------------------------------------------------------------------------
    for fn, attr, shift, what in (('pc_feature_ind.npy', 'pc_feature_ind', coff[:-1].tolist(), 'channel-block start'),
                                  ('template_feature_ind.npy', 'template_feature_ind', toff, 'template offset')):
        rr = call(load, fn)
        E = np.concatenate([getattr(s, attr).astype(np.int64) + shift[p] for p, s in enumerate(specs)])
        dd = same(rr.value.astype(np.int64), E, dtype=False) if rr.ok else repr(rr.exc)
        if dd:
            V('index_tables', '%s is not the input tables shifted by the %s of each probe: %s' % (fn, what, dd), file=fn)
    # ---- params -----------------------------------------------------------------------------------------------
    ns = {}
    try:
        exec(open(os.path.join(out, 'params.py')).read(), {}, ns)
        if float(ns['sample_rate']) != specs[0].sample_rate or int(ns['n_channels_dat']) != sum(s.n_channels_dat for s in specs):
            V('params', 'params.py: sample_rate %r n_channels_dat %r' % (ns.get('sample_rate'), ns.get('n_channels_dat')), file='params.py')
    except Exception as e:
        V('params', 'params.py unreadable: %r' % e, file='params.py')
    if m.n_channels != NC or m.n_templates != NT:
        V('returned_model', 'model has %r channels / %r templates, expected %d / %d' % (m.n_channels, m.n_templates, NC, NT))
