"""C04 - Loading a dataset reproduces its files under every supported layout."""
import itertools
import shutil

import numpy as np

from gen.dataset import random_spec
from vmon.core import call, same, hkey, scratch_dir
from vmon import monitors
from vmon.monitors import snapshot, snapshot_diff

ID = 'C04'
LEVEL = 'exploration'
MONITORS = ('M1', 'M2', 'M3', 'M6')
ANCHORS = ['phylib.io.model:TemplateModel._load_data', 'phylib.io.model:TemplateModel._find_path',
           'phylib.io.model:_find_first_existing_path', 'phylib.io.model:read_array',
           'phylib.io.model:TemplateModel._load_spike_samples',
           'phylib.io.model:TemplateModel._load_spike_clusters',
           'phylib.io.model:TemplateModel._load_traces', 'phylib.io.model:TemplateModel._compute_wmi',
           'phylib.io.model:get_template_params', 'phylib.io.model:load_model',
           'phylib.utils._misc:read_python']
AXES = {
    'names': ['ks', 'alf'], 'vec2d': [False, True, 'row'], 'clusters': ['absent', 'same', 'curated'],
    'amps': [True, False], 'wm': [True, False], 'wmi_file': [False, True], 'shanks': [0, 2],
    'probes': [False, True], 'features': ['none', 'dense', 'sparse', 'sparse_rows'],
    'tfeatures': [False, True], 'similar': [False, True], 'raw': ['none', 'int16', 'float32'],
    'raw_parts': [1, 3], 'ncdat_extra': [0, 2], 'raw_ext': ['.dat', '.bin', '.npy'],
    'raw_offset': [0, 16], 'sparse_templates': [False, True],
    'dtype_times': ['uint64', 'int64', 'uint32', 'int32'],
    'dtype_ids': ['int32', 'int64', 'uint32', 'uint16'], 'dtype_map': ['int32', 'int64', 'uint32'],
    'alf_store_samples': [True, False], 'nan': ['none', 'amps', 'similar', 'attrs', 'template', 'template_first_row'],
    'attrs': ['none', 'right', 'wrong_len', 'both'], 'spikeless': ['none', 'first', 'middle', 'last'],
    'dat_path_str': [False, True], 'alf_skew': [False, True],
    'fortran': [False, True], 'raw_symlink': [False, True], 'ks2_file': [False, True], 'npy_symlink': [False, True], 'dtype_amps': ['float64', 'float32'], 'dtype_templates': ['float32', 'float64'], 'dtype_feat': ['float32', 'float64'],
}
RULE = ('Each case = one generated dataset directory (configuration vector over %d axes: %s) + random '
        'contents, loaded with the real load_model (params path given as str / Path / through a symlink / relative to the working directory; directory names with spaces and non-ASCII characters); every listed public attribute is compared with the '
        'DatasetSpec (the harness wrote the bytes) and the directory is content-hashed before/after. '
        'Configurations: an all-pairs covering set (every pair of axis values forced once, rest random) '
        'plus seeded random vectors, plus rejection cases (one inversion in the spike times at the '
        'first / a middle / the last position); a third of the directories are loaded twice (second view and '
        'second snapshot judged too). (rejection positions: '
        'first / a middle / the last position). non-trivial = distinct configuration vectors with >= 2 '
        'optional files absent, or ALF names, or (n,1) vectors.' % (len(AXES), ', '.join(sorted(AXES))))
RULE += ' Added classes: Fortran-ordered .npy files; loads performed from a working directory that holds a same-named decoy raw file; one dataset with > 2**20 spikes whose only time inversion sits on the 2**20 block seam (must be rejected).'
RULE += ' Round 5: vectors stored as (1, n) rows; views (channel subset, scaled copy, reversed channels) derived from model.traces before it is read.'
RULE += ' Round 6: templates whose first sample only is NaN; attribute files named spike_times_ms.npy / spike_clusters_ks.npy; a Kilosort-2 templates_ind.npy next to dense templates.'
RULE += ' Round 7: a parameter file in another folder naming the data folder (dir_path) with decoy raw files beside it; files created by loading must be files of their own (no hard links).'
RULE += ' Round 8: array files that are symbolic links into another folder (that folder is snapshotted too); a sorted spike_times_reordered.npy beside unsorted times (refusal required); per-spike attribute files of shape (n, 2).'
RULE += ' Round 9: raw parts with equal base names (run<k>/continuous.dat); stored seconds with an inversion of a fifth of a sample; the caller writes to model.spike_clusters and spike_templates is compared again.'
RULE += ' Round 10: regular (unjittered) geometries; the all-NaN template may be one without spikes, and templates are compared (all-NaN -> zeros) in that case too.'
RULE += ' Round 11: params.py as a link into another folder given by a relative path; a raw file cut in the middle of a sample; an ALF samples file with an extra name part.'
RULE += ' Round 12: a regularised single-precision whitening_mat_inv.npy dated older than every other file.'
RULE += ' Round 13: a 6-byte header with 1 or 4 trailing bytes; array files in .npy format 2.0 / 3.0.'
RULE += ' Round 14: NaN / inf in a fully loaded float64 file of more than 8 MiB.'
EXHAUSTIVE = {'quick': False, 'thorough': False}
FLOORS = {'quick': {'evaluations': 1500, 'distinct_nontrivial': 800, 'monitors': {'M1.checked': 2000}},
          'thorough': {'evaluations': 20000, 'distinct_nontrivial': 5000, 'monitors': {'M1.checked': 5000}}}
ASSUMPTIONS = ['directories never hold both the KS and the ALF name of one array; vectors have >= 2 '
               'entries and no array dimension is 1 (squeeze() is documented as degenerate there); NaN '
               'never placed in positions / whitening', 'for an all-NaN template only byte-invariance of '
               'the file is judged, not its in-memory value']
NSHARDS = 16


def pair_configs():
    names = sorted(AXES)
    out = []
    for a, b in itertools.combinations(names, 2):
        for va in AXES[a]:
            for vb in AXES[b]:
                out.append({a: va, b: vb})
    return out


def plan(tier, seed):
    nrand = 1500 if tier == 'quick' else 30000
    return [{'shard': i, 'n': NSHARDS, 'seed': seed, 'nrand': nrand, 'tier': tier} for i in range(NSHARDS)]


def fill(rng, forced):
    o = {k: v[int(rng.integers(0, len(v)))] for k, v in AXES.items()}
    o.update(forced)
    return o


def run_shard(desc, ctx):
    sh, ns = desc['shard'], desc['n']
    pcs = pair_configs()
    if desc['tier'] == 'quick':
        pcs = pcs[desc['seed'] % 3::3]   # a third of the covering set per seed (all pairs over 3 seeds)
    for i, forced in enumerate(pcs):
        if i % ns != sh:
            continue
        rng = np.random.default_rng([desc['seed'], 4, i])
        run_case({'opts': fill(rng, forced), 'seed': [desc['seed'], 4, i, 1], 'reject': None}, ctx)
    if sh < 2:
        # size: more than 2**20 (resp. 2**16) spikes with the single inversion exactly at that index
        run_case({'opts': fill(np.random.default_rng(5), {'raw': 'none', 'features': 'none', 'tfeatures': False, 'names': 'ks',
                                                       'attrs': 'none', 'nan': 'none', 'clusters': 'same'}),
                  'seed': [desc['seed'], 4444, sh, 1], 'reject': 'seam', 'ns': [2 ** 20 + 8, 2 ** 16 + 8][sh]}, ctx)
    if sh == 2 % ns:
        # size (round 14): a fully loaded float64 file of more than 8 MiB (2**20 + 8 spikes) holding NaN and inf - stored
        # non-finite values are replaced by zero whatever the size of the file
        run_case({'opts': fill(np.random.default_rng(6), {'raw': 'none', 'features': 'none', 'tfeatures': False, 'names': 'ks',
                                                       'attrs': 'none', 'nan': 'amps', 'clusters': 'same', 'dtype_amps': 'float64'}),
                  'seed': [desc['seed'], 4445, 0, 1], 'reject': None, 'ns': 2 ** 20 + 8}, ctx)
    for i in range(desc['nrand']):
        if i % ns != sh:
            continue
        rng = np.random.default_rng([desc['seed'], 44, i])
        rej = [None, None, None, None, None, 'first', 'middle', 'last'][int(rng.integers(0, 8))]
        run_case({'opts': fill(rng, {}), 'seed': [desc['seed'], 44, i, 1], 'reject': rej}, ctx)


def build(case):
    o = dict(case['opts'])
    rng = np.random.default_rng(case['seed'])
    if o['raw_ext'] == '.npy':
        o['raw_parts'] = 1
        o['raw_offset'] = 0
    if o['raw'] == 'none':
        o['raw_parts'], o['raw_offset'] = 1, 0
    if o['sparse_templates']:
        pass
    if case.get('ns'):
        o['ns'] = case['ns']
        o['n_samples'] = 4 * case['ns']
    spec = random_spec(rng, ties=case['seed'][2] % 4 == 2, **{k: v for k, v in o.items() if k not in (
        'nan', 'attrs', 'alf_store_samples', 'dat_path_str', 'alf_skew', 'fortran')})       # (ties: a regular grid, x and y values repeat)
    spec.notes['fortran'] = bool(o['fortran'])
    spec.notes['raw_symlink'] = bool(o['raw_symlink'])
    spec.notes['raw_same_name'] = case['seed'][2] % 3 == 1         # parts named run<k>/continuous.<ext>
    spec.notes['raw_stray_byte'] = {2: 1, 4: 4}.get(case['seed'][2] % 5, 0)        # the last raw file ends in the middle of a sample (1 extra byte) / of a row (4)
    if case['seed'][2] % 5 == 4 and spec.raw is not None and spec.raw_ext != '.npy' and spec.raw.dtype.itemsize == 2:
        spec.raw_offset = 6            # a header that is not a whole number of rows either
    if case['seed'][2] % 6 == 3:
        spec.notes['npy_version'] = [(2, 0), (3, 0)][case['seed'][2] % 12 == 3]      # array files in a later .npy format
    if o['names'] == 'alf' and case['seed'][2] % 4 == 1:
        spec.notes['alf_samples_suffix'] = ['ks2', '7a3f'][case['seed'][2] % 8 == 1]      # spikes.samples.<extra part>.npy (ALF names may carry extra parts)
    spec.notes['ks2_templates_ind'] = bool(o['ks2_file'])
    spec.notes['npy_symlink'] = bool(o['npy_symlink'])
    spec.alf_store_samples = o['alf_store_samples']
    if o['alf_skew'] and o['names'] == 'alf' and spec.alf_store_samples:
        # clock-synchronised seconds: monotonic but not bit-identical to samples / rate
        spec.alf_times_custom = spec.spike_samples.astype(np.float64) / spec.sample_rate * 1.00002 + 0.125
    spec.notes['dat_path_str'] = bool(o['dat_path_str'] and spec.raw is not None and
                                      len(spec.raw_parts or [1]) == 1)
    ns = spec.n_spikes
    if o['attrs'] in ('right', 'both'):
        spec.spike_attrs['quality'] = rng.normal(size=ns)
        spec.spike_attrs['pos2'] = rng.normal(size=(ns, 2))
        # attribute names that merely begin with a reserved word (spike_times_ms.npy, spike_clusters_ks.npy)
        spec.spike_attrs['times_ms'] = rng.normal(size=ns)
        spec.spike_attrs['clusters_ks'] = rng.integers(0, 9, size=ns)
    if o['attrs'] in ('wrong_len', 'both'):
        spec.spike_attrs['stale'] = rng.normal(size=ns + 3)
    nan = o['nan']
    if nan == 'amps' and spec.amplitudes is not None:
        spec.amplitudes[::5] = np.nan
        spec.amplitudes[1::7] = np.inf
    elif nan == 'similar' and spec.similar_templates is not None:
        spec.similar_templates[0, 1] = np.nan
        spec.similar_templates[1, 0] = -np.inf
    elif nan == 'attrs' and 'quality' in spec.spike_attrs:
        spec.spike_attrs['quality'][::3] = np.nan
        spec.spike_attrs['quality'][1] = np.inf
        spec.spike_attrs['pos2'][::4, 1] = np.nan          # a 2-D attribute array too
        spec.spike_attrs['pos2'][2, 0] = -np.inf
    elif nan == 'template_first_row' and o['clusters'] != 'curated':
        # NaN on every channel of the first waveform sample only: not an empty template, the values stay as stored
        spec.templates[int(rng.integers(0, spec.n_templates)), 0, :] = np.nan
    elif nan == 'template':
        t_nan = int(rng.integers(0, spec.n_templates))
        unused = sorted(set(range(spec.n_templates)) - set(spec.spike_templates.tolist()))
        if unused and case['seed'][2] % 2:
            t_nan = unused[0]            # the all-NaN template is one that no spike refers to (a template the sorter dropped)
        spec.templates[t_nan] = np.nan
        spec.notes['nan_template'] = True
    if case.get('reject'):
        s = spec.spike_samples.copy()
        pos = {'first': 0, 'middle': ns // 2, 'last': ns - 2, 'seam': (1 << (ns.bit_length() - 1)) - 1}[case['reject']]
        s[pos] = s[pos + 1] + 1 + int(rng.integers(0, 3))
        if spec.alf_times_custom is not None and ns % 2:
            # only the stored seconds are out of order, the stored samples stay sorted
            t = spec.alf_times_custom.copy()
            # (by half a second, or by a fifth of a sample: an inversion of any size is an inversion)
            t[pos] = t[pos + 1] + (0.5 if ns % 4 == 3 else 0.2 / spec.sample_rate)
            assert t[pos] > t[pos + 1]
            spec.alf_times_custom = t
        else:
            spec.spike_samples = s
            if spec.alf_times_custom is not None:
                spec.alf_times_custom = s.astype(np.float64) / spec.sample_rate * 1.00002 + 0.125
        if o['names'] == 'ks' and ns % 3 == 0:
            # an (optional) re-ordered copy of the times lies next to the unsorted ones: the dataset is still rejected
            import io
            bio = io.BytesIO()
            np.save(bio, np.sort(spec.spike_samples).astype(np.float64) / spec.sample_rate)
            spec.extra_files['spike_times_reordered.npy'] = bio.getvalue()
    if spec.wmi_file is not None and case['seed'][2] % 3 == 1:
        # the shipped inverse is not the plain inverse (a regularised one, stored in single precision): it is the file that counts
        spec.wmi_file = (spec.wmi_file + 0.01 * np.eye(spec.wmi_file.shape[0])).astype(np.float32)
    return spec, o


def scrub(a):
    a = np.array(a, copy=True)
    if a.dtype.kind == 'f':
        a[~np.isfinite(a)] = 0
    return a


def run_case(case, ctx):
    from phylib.io.model import load_model
    spec, o = build(case)
    absent = sum([o['clusters'] == 'absent', not o['amps'], not o['wm'], not o['shanks'],
                  not o['probes'], o['features'] == 'none', not o['tfeatures'], not o['similar'],
                  o['raw'] == 'none'])
    vec = tuple(sorted((k, str(v)) for k, v in o.items()))
    ctx.count(1, key=hkey(vec, case.get('reject')),
              nontrivial=(absent >= 2 or o['names'] == 'alf' or o['vec2d']),
              cell=(o['names'], 'vec2d' if o['vec2d'] else 'vec1d', 'clu_' + o['clusters'],
                    'raw_' + o['raw']))
    ctx.sample({'opts': o, 'reject': case.get('reject')}, every=53)
    feats = {'names': o['names'], 'clusters': o['clusters']}
    d0 = scratch_dir('c04_')
    import os
    from pathlib import Path
    form = case['seed'][2] % 6
    d = os.path.join(d0, ['ds', 'my data set', 'dät-ä (1)', 'ds', 'ds', 'ds'][form])      # spaces / non-ASCII / brackets in the path
    mon = monitors.CURRENT
    cwd0 = os.getcwd()
    try:
        params = spec.write(d)
        wmi_p = os.path.join(d, 'whitening_mat_inv.npy')
        if os.path.exists(wmi_p) and case['seed'][2] % 3 == 1:
            os.utime(wmi_p, (1.0e9, 1.0e9))          # the shipped inverse is older than every other file of the dataset
        if form == 3:                       # through a symlink to the dataset directory
            os.symlink(d, os.path.join(d0, 'link'))
            params = os.path.join(d0, 'link', 'params.py')
        elif form == 4:                     # relative to the current working directory
            if case['seed'][2] % 12 == 4:
                # ... and params.py is itself a link to a parameter file kept in another folder (shared between sessions)
                os.makedirs(os.path.join(d0, 'shared config'))
                os.replace(os.path.join(d, 'params.py'), os.path.join(d0, 'shared config', 'params_common.py'))
                os.symlink(os.path.join(d0, 'shared config', 'params_common.py'), os.path.join(d, 'params.py'))
            os.chdir(d)
            params = 'params.py' if case['seed'][2] % 24 != 4 else Path('params.py')
        elif form == 5 and spec.raw is not None and spec.raw_ext != '.npy':
            # the working directory holds other files with the names of the (relative) raw data files
            decoy = os.path.join(d0, 'other session')
            os.makedirs(decoy)
            for k_ in range(len(spec.raw_parts or [1])):
                with open(os.path.join(decoy, 'raw_t%d%s' % (9 + k_, spec.raw_ext)), 'wb') as f_:
                    f_.write(b'\x07' * (spec.raw.nbytes + 64))
            os.chdir(decoy)
            params = str(params)
        else:
            params = [str(params), Path(params), str(params), None, None, str(params)][form]
        if form == 0 and case['seed'][2] % 12 == 6:
            # the parameter file lives in another folder and names the data folder itself (dir_path); the decoy raw
            # files next to it must not be taken for the recording
            conf = os.path.join(d0, 'config')
            os.makedirs(conf)
            with open(os.path.join(conf, 'params.py'), 'w') as f_:
                f_.write(open(os.path.join(d, 'params.py')).read() + 'dir_path = %r\n' % str(d))
            if spec.raw is not None and spec.raw_ext != '.npy':
                for k_ in range(len(spec.raw_parts or [1])):
                    with open(os.path.join(conf, 'raw_t%d%s' % (9 + k_, spec.raw_ext)), 'wb') as f_:
                        f_.write(b'\x05' * (spec.raw.nbytes + 32))
            params = os.path.join(conf, 'params.py')
        before = snapshot(d)
        if mon.fs:
            mon.fs.watch(d)
        r = call(load_model, params)
        audit = mon.fs.stop() if mon.fs else []
        after = snapshot(d)
        # ---- rejection cases ---------------------------------------------------------------
        if case.get('reject'):
            ctx.cell('reject', case['reject'])
            if r.ok:
                ctx.violation('non_monotonic_times_accepted', case,
                              'load_model accepted spike times with an inversion (%s)' % case['reject'],
                              {'pos': case['reject']})
                call(r.value.close)
            return
        if not r.ok:
            ctx.violation('load_raised', case, 'load_model raised %r on a well-formed layout' % r.exc,
                          dict(feats, exc=r.exc_name), tb=r.tb)
            return
        m = r.value
        try:
            _compare(m, spec, o, case, ctx, feats)
            # the cluster assignment is the caller's working copy (manual clustering updates it in place): writing to it
            # must leave the other loaded arrays equal to the files
            sc_ = m.spike_clusters
            if isinstance(sc_, np.ndarray) and sc_.flags.writeable and sc_.size:
                ctx.cell('clusters_written_by_caller')
                sc_[::2] = sc_.max() + 5
                _cmp(ctx, case, dict(feats, after_cluster_update=True), 'spike_templates (after the caller updated spike_clusters in place)',
                     m.spike_templates, spec.spike_templates.astype(spec.dtype_ids))
        finally:
            call(m.close)
        if case['seed'][2] % 3 == 0:
            # history: the same directory loaded a second time (it now also holds the cluster copy and the
            # inverse whitening matrix written by the first load) must show the same view and write nothing
            ctx.cell('loaded_twice')
            r2 = call(load_model, params)
            after2 = snapshot(d)
            if not r2.ok:
                ctx.violation('load_raised', case, 'second load_model of the same directory raised %r' % r2.exc,
                              dict(feats, exc=r2.exc_name, second_load=True), tb=r2.tb)
                return
            try:
                _compare(r2.value, spec, o, case, ctx, dict(feats, second_load=True))
            finally:
                call(r2.value.close)
            if after2 != after:
                c2, d2, ch2 = snapshot_diff(after, after2)
                ctx.violation('preexisting_file_modified', case, 'second load changed the directory: created %s deleted %s '
                              'changed %s' % (c2, d2, ch2), dict(feats, second_load=True))
        # ---- file-system effects -------------------------------------------------------------
        created, deleted, changed = snapshot_diff(before, after)
        allowed = set()
        if spec.spike_clusters is None:
            allowed.add('spike_clusters.npy')
        if spec.wmi_file is None:
            allowed.add('whitening_mat_inv.npy')
        for f in changed + deleted:
            w = [e for e in audit if e[1].endswith(f)]
            ctx.violation('preexisting_file_modified', case,
                          'loading %s pre-existing file %s (write-capable events: %s)' % (
                              'changed' if f in changed else 'deleted', f, w[-2:]),
                          {'file': f, 'nan_template': bool(spec.notes.get('nan_template'))})
        for f in created:
            if f not in allowed:
                ctx.violation('unexpected_file_created', case, 'loading created %s' % f, {'file': f})
        for f in created:
            # a created file is a file of its own: not another name (hard link) for a pre-existing one, whose bytes a
            # later save of the new file would then rewrite
            fp = os.path.join(d, f)
            if os.path.isfile(fp) and not os.path.islink(fp) and os.stat(fp).st_nlink > 1:
                ctx.violation('created_file_is_a_hard_link', case, 'loading created %s as a second name of an existing file (st_nlink=%d)' % (
                    f, os.stat(fp).st_nlink), {'file': f})
        if 'spike_clusters.npy' in created:
            got = np.load(os.path.join(d, 'spike_clusters.npy')).squeeze()
            dd = same(got.astype(np.int64), spec.spike_templates.astype(np.int64), dtype=False)
            if dd:
                ctx.violation('cluster_copy_wrong', case, 'created spike_clusters.npy: ' + dd)
    finally:
        os.chdir(cwd0)
        shutil.rmtree(d0, ignore_errors=True)


def _cmp(ctx, case, feats, name, got, exp, **kw):
    d = same(got, exp, **kw)
    if d:
        ctx.violation('attribute_mismatch', case, 'model.%s: %s' % (name, d), dict(feats, attr=name))


def _compare(m, spec, o, case, ctx, feats):
    C = lambda name, got, exp, **kw: _cmp(ctx, case, feats, name, got, exp, **kw)  # noqa
    rate = spec.sample_rate
    # spikes
    if spec.names == 'ks' or spec.alf_store_samples:
        C('spike_samples', m.spike_samples, spec.spike_samples.astype(spec.dtype_times))
    else:
        C('spike_samples', m.spike_samples,
          np.round(spec.alf_times * rate).astype(np.uint64), dtype=False)
    C('spike_times', m.spike_times, spec.spike_samples.astype(spec.dtype_times) / rate
      if spec.names == 'ks' else spec.alf_times)
    C('spike_templates', m.spike_templates, spec.spike_templates.astype(spec.dtype_ids))
    C('spike_clusters', m.spike_clusters, spec.clusters.astype(np.int32))
    if spec.amplitudes is None:
        if m.amplitudes is not None:
            ctx.violation('attribute_mismatch', case, 'amplitudes should be None', dict(feats, attr='amplitudes'))
    else:
        C('amplitudes', m.amplitudes, scrub(spec.amplitudes))
    if m.n_spikes != spec.n_spikes or m.n_templates != spec.n_templates or m.n_channels != spec.n_channels:
        ctx.violation('attribute_mismatch', case, 'counts %r' % ((m.n_spikes, m.n_templates, m.n_channels),),
                      dict(feats, attr='counts'))
    # channels
    C('channel_mapping', m.channel_mapping, spec.channel_map.astype(spec.dtype_map))
    C('channel_positions', m.channel_positions, spec.positions)
    C('channel_shanks', m.channel_shanks,
      spec.shanks if spec.shanks is not None else np.zeros(spec.n_channels, np.int32), dtype=False)
    C('channel_probes', m.channel_probes,
      spec.probes if spec.probes is not None else np.zeros(spec.n_channels, np.int32), dtype=False)
    # templates
    expT = np.array(spec.templates, copy=True)
    expT[np.isnan(expT).all(axis=(1, 2))] = 0          # a template that is NaN everywhere is an empty template: zeros, used by spikes or not
    C('sparse_templates.data', np.asarray(m.sparse_templates.data), expT)
    if spec.template_ind is None:
        if m.sparse_templates.cols is not None:
            ctx.violation('attribute_mismatch', case, 'dense templates got cols', dict(feats, attr='cols'))
    else:
        C('sparse_templates.cols', m.sparse_templates.cols, spec.template_ind)
    # whitening
    C('wm', m.wm, spec.wm_eff, dtype=False)
    if spec.wmi_file is not None:
        C('wmi', m.wmi, spec.wmi_file)
    else:
        C('wmi', m.wmi, np.linalg.inv(spec.wm_eff), dtype=False, rtol=1e-9, atol=1e-12)
    C('similar_templates', m.similar_templates,
      scrub(spec.similar_templates) if spec.similar_templates is not None
      else np.zeros((spec.n_templates,) * 2), dtype=False)
    # spike attributes
    exp_attrs = {k: v for k, v in spec.spike_attrs.items() if v.shape[0] == spec.n_spikes}
    got_attrs = dict(m.spike_attributes)
    if set(got_attrs) != set(exp_attrs):
        ctx.violation('attribute_mismatch', case, 'spike_attributes keys %s != %s' % (
            sorted(got_attrs), sorted(exp_attrs)), dict(feats, attr='spike_attributes'))
    for k in set(got_attrs) & set(exp_attrs):
        C('spike_attributes.' + k, got_attrs[k], scrub(exp_attrs[k]))
    # traces
    A = spec.traces_truth()
    if A is None:
        if m.traces is not None:
            ctx.violation('attribute_mismatch', case, 'traces should be None', dict(feats, attr='traces'))
        if m.duration != spec.spike_times[-1]:
            ctx.violation('attribute_mismatch', case, 'duration %r' % m.duration, dict(feats, attr='duration'))
    else:
        if m.traces is None:
            ctx.violation('attribute_mismatch', case, 'traces is None', dict(feats, attr='traces'))
            return
        monitors.CURRENT.readers.register(m.traces, lambda A=A: A, label='model.traces')
        n = A.shape[0]
        if m.duration != n / rate:
            ctx.violation('attribute_mismatch', case, 'duration %r != %r' % (m.duration, n / rate),
                          dict(feats, attr='duration'))
        items = [0, -1, n - 1, slice(None), slice(1, n // 2 + 1), slice(-3, None), slice(n // 3, -1)]
        # history on the model's reader: views are derived from it (a channel subset, a scaled copy) and read;
        # the reader itself must go on denoting the raw file
        call(lambda: m.traces[0:2, [0]])
        call(lambda: (m.traces * 2)[0:2])
        call(lambda: m.traces[:, ::-1][0:1])
        for p in np.cumsum(spec.raw_parts or [n])[:-1].tolist():
            items += [p, p - 1, slice(max(0, p - 2), min(n, p + 2))]
        for it in items:
            rr = call(lambda: m.traces[it])
            if not rr.ok:
                ctx.violation('traces_raised', case, 'traces[%r] raised %r' % (it, rr.exc),
                              dict(feats, attr='traces'), tb=rr.tb)
                continue
            exp = A[it] if not isinstance(it, int) else A[it][None, :]
            dd = same(rr.value, exp)
            if dd:
                ctx.violation('attribute_mismatch', case, 'traces[%r]: %s' % (it, dd), dict(feats, attr='traces'))
