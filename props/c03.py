"""C03 - Every route to a spike waveform yields the same zero-padded raw window."""
import os
import shutil

import numpy as np

from gen import layouts as L
from gen.dataset import random_spec
from ref.waveforms import window, windows
from vmon.core import call, same, hkey, scratch_dir
from vmon import monitors

ID = 'C03'
LEVEL = 'exploration'
MONITORS = ('M1', 'M2', 'M6')
ANCHORS = ['phylib.io.traces:_extract_waveform', 'phylib.io.traces:extract_waveforms',
           'phylib.io.traces:iter_waveforms', 'phylib.io.traces:export_waveforms',
           'phylib.io.traces:NpyWriter.append', 'phylib.io.traces:get_spike_waveforms',
           'phylib.io.traces:BaseEphysReader.iter_chunks', 'phylib.io.traces:MtscompEphysReader.iter_chunks',
           'phylib.io.model:TemplateModel.get_waveforms']
RULE = ('Each case = a recording (length 1..80, 1-5 channels, int16/float32/float64, 1-3 flat files, .npy or '
        '.cbin, chunk size from {1,2,3,5,n-1,n,>n} obtained through the public sample_rate / chunk_duration, '
        'cache on/off, 1-3 decoder threads) x a sorted spike vector of dtype int64/int32/uint32/uint64 that '
        'always contains 0, n-1, every sample within n//2 of both ends and every chunk/file boundary b and '
        'b-1 (duplicates allowed; one case in 120 holds > 2300 spikes in a single chunk) x window length 1..9 or longer than the recording x channel lists (one '
        'list/array for all spikes; per-spike rows; with and without -1) x factor {1,2,1.0,0.5,2.5}. Four '
        'routes are compared with the reference window computed from the bytes the harness wrote: '
        'extract_waveforms, np.load of the export_waveforms file, get_spike_waveforms on that store '
        '(shuffled queries, channel subsets/supersets), and TemplateModel.get_waveforms with and without a '
        'store on generated datasets. non-trivial = distinct cases with a padded spike, a spike on a '
        'chunk/file boundary of a >= 2-chunk recording, a -1 channel, an unsigned spike dtype or a '
        'non-float64 recording exported.')
RULE += ' Added classes: NaN / +-inf samples in float flat and array recordings (incl. the last channel, which -1 entries select before blanking); several readers derived from one recording (raw, raw[:, cols], raw * k) reading the same windows alternately; part files whose given order is not their lexicographic order.'
RULE += ' Round 6: 96-384 channel recordings with small unsorted channel requests to the store; the directly extracted array held across all later calls.'
RULE += ' Round 7: headers of 7 / 16 bytes on (multi-file) flat recordings.'
RULE += ' Round 8: model datasets with a single template; a second export of the same selection under another unit factor.'
RULE += ' Round 10: multi-file recordings whose parts have equal base names; unit factors 0, 0.0 and -3; an export in which one chunk yields 8.2 MiB of waveforms after a chunk with two or three spikes.'
RULE += ' Round 11: derived readers (per-channel gains, then a channel permutation) handed to the three routes; stored channel rows that keep a -1 inside; samples at the ends of their range with integer unit factors.'
RULE += ' Round 12: model route: the raw recording is archived away after the export and a fresh model serves the store; an export of no spike (also over an earlier export).'
EXHAUSTIVE = {'quick': False, 'thorough': False}
FLOORS = {'quick': {'evaluations': 6000, 'distinct_nontrivial': 4000, 'monitors': {'M1.checked': 100000}},
          'thorough': {'evaluations': 80000, 'distinct_nontrivial': 40000, 'monitors': {'M1.checked': 500000}}}
ASSUMPTIONS = ['unsorted spike vectors, spikes outside [0, n) and sample2unit=None are outside the quantifier',
               'store lookups are judged on the channels the store holds for that spike',
               'derived readers handed to the routes keep the sample type (operators that change it leave the declared dtype of the reader unchanged, which extraction trusts)']
NSHARDS = 16
FACTORS = [1, 2, 1.0, 0.5, 2.5]
SDT = ['int64', 'int32', 'uint32', 'uint64']
RDT = ['int16', 'float32', 'float64']


def plan(tier, seed):
    n = 6000 if tier == 'quick' else 100000
    nm = 480 if tier == 'quick' else 4000
    return [{'shard': i, 'n': NSHARDS, 'seed': seed, 'cases': n // NSHARDS + 1, 'models': nm // NSHARDS + 1}
            for i in range(NSHARDS)]


def run_shard(desc, ctx):
    for i in range(desc['cases']):
        run_case({'kind': 'raw', 'seed': [desc['seed'], desc['shard'], i]}, ctx)
    for i in range(desc['models']):
        run_case({'kind': 'model', 'seed': [desc['seed'], desc['shard'], i, 3]}, ctx)
    if desc['shard'] in (3, 11):
        run_case({'kind': 'big_export', 'seed': [desc['seed'], desc['shard']]}, ctx)
    if desc['shard'] in (1, 6):
        run_case({'kind': 'full_scale', 'seed': [desc['seed'], desc['shard']]}, ctx)
    if desc['shard'] in (2, 7):
        run_case({'kind': 'empty_export', 'seed': [desc['seed'], desc['shard']]}, ctx)


def run_case(case, ctx):
    d = scratch_dir('c03_')
    try:
        if case.get('kind', 'raw' if len(case.get('seed', [])) == 3 else 'model') == 'raw':
            _raw(case, ctx, d)
        elif case['kind'] == 'big_export':
            _big_export(case, ctx, d)
        elif case['kind'] == 'full_scale':
            _full_scale(case, ctx, d)
        elif case['kind'] == 'empty_export':
            _empty_export(case, ctx, d)
        else:
            _model(case, ctx, d)
    finally:
        shutil.rmtree(d, ignore_errors=True)


def _big_export(case, ctx, d):
    """One recording chunk yields more than 8 MiB of waveforms, the chunk before it only a few spikes."""
    from phylib.io.traces import get_ephys_reader, export_waveforms
    rng = np.random.default_rng(case['seed'])
    n, nc, nsw = 6000, 8, 64
    A = L.unique_cells(n, nc, np.dtype('int16'))
    rd = get_ephys_reader(A, sample_rate=5.)          # chunks of 3000 samples
    few = [100, 800, 2500] if case['seed'][1] % 2 else [40, 2900]
    samples = np.r_[few, np.sort(rng.integers(3100, 5900, size=2100))].astype(np.int64)
    rows = np.tile(np.arange(nc), (len(samples), 1))
    path = os.path.join(d, 'big.npy')
    ctx.count(1, key=hkey('big_export', tuple(case['seed'])), nontrivial=True, cell=('array', 'int16', 'big_export'))
    r = call(export_waveforms, path, rd, samples, rows, n_samples_waveforms=nsw, cache=False, sample2unit=1.0)
    f = {'route': 'export', 'big_export': True}
    if not r.ok:
        ctx.violation('route_raised', case, 'export_waveforms of %d spikes raised %r' % (len(samples), r.exc), dict(f, exc=r.exc_name), tb=r.tb)
        return
    got = np.load(path)
    exp = np.stack([A[s - nsw // 2:s - nsw // 2 + nsw] for s in samples.tolist()]).astype(np.float64)
    dd = same(got, exp)
    if dd:
        bad = [i for i in range(len(samples)) if got.shape == exp.shape and not np.array_equal(got[i], exp[i])][:5]
        ctx.violation('export_mismatch', case, 'export of %d spikes (%.1f MiB from one chunk): %s; first wrong rows %r' % (
            len(samples), exp[len(few):].nbytes / 2 ** 20, dd, bad), f)


def _empty_export(case, ctx, d):
    """An export of no spike at all: the file must load as an array of the declared shape (0, n, c) - also when the path held an
    earlier export."""
    from phylib.io.traces import get_ephys_reader, export_waveforms
    A = L.unique_cells(50, 3, np.dtype('int16'))
    rd = get_ephys_reader(A, sample_rate=20. / 600)
    nsw = 6
    for reuse in (False, True):
        path = os.path.join(d, 'e%d.npy' % reuse)
        if reuse:
            call(export_waveforms, path, rd, np.array([5, 20, 41]), np.tile(np.arange(3), (3, 1)), n_samples_waveforms=nsw, cache=False, sample2unit=1.)
        ctx.count(1, key=hkey('empty_export', reuse), nontrivial=True, cell=('array', 'int16', 'empty_export'))
        r = call(export_waveforms, path, rd, np.zeros(0, dtype=np.int64), np.zeros((0, 3), dtype=np.int64), n_samples_waveforms=nsw, cache=False, sample2unit=1.)
        f = {'route': 'export', 'empty_export': True}
        if not r.ok:
            ctx.violation('route_raised', dict(case, reuse=reuse), 'export of no spike raised %r' % r.exc, dict(f, exc=r.exc_name), tb=r.tb)
            continue
        rl = call(np.load, path)
        if not rl.ok or rl.value.shape != (0, nsw, 3):
            ctx.violation('export_mismatch' if rl.ok else 'export_unloadable', dict(case, reuse=reuse), 'export of no spike%s: %s' % (
                ' over an earlier export' if reuse else '', 'shape %r, declared (0, %d, 3)' % (rl.value.shape, nsw) if rl.ok else repr(rl.exc)), f)


def _full_scale(case, ctx, d):
    """Samples at the ends of the sample type's range, integer unit factors: the exported windows are windows times the factor."""
    from phylib.io.traces import get_ephys_reader, export_waveforms
    for dt in ('int16', 'uint16', 'int32', 'uint8'):
        info = np.iinfo(dt)
        n, nc, nsw = 40, 3, 4
        A = np.empty((n, nc), dtype=dt)
        A[0::2] = info.max
        A[1::2] = info.min
        A[:, 1] = (np.arange(n) * 7 + info.max // 2).astype(dt)
        samples = np.array([3, 10, 20, 36], dtype=np.int64)
        rows = np.tile(np.arange(nc), (len(samples), 1))
        exp0 = np.stack([A[s - nsw // 2:s - nsw // 2 + nsw] for s in samples.tolist()]).astype(np.float64)
        for factor in (2, 3, -3, np.int16(2), np.int64(5), np.uint8(3), 2.5):
            rd = get_ephys_reader(A, sample_rate=10. / 600)
            path = os.path.join(d, 'fs.npy')
            ctx.count(1, key=hkey('full_scale', dt, repr(factor)), nontrivial=True, cell=('array', dt, 'full_scale'))
            r = call(export_waveforms, path, rd, samples, rows, n_samples_waveforms=nsw, cache=False, sample2unit=factor)
            f = {'route': 'export', 'full_scale': True, 'raw_dtype': dt, 'factor_type': type(factor).__name__}
            sub_ = dict(case, dtype=dt, factor=repr(factor))
            if not r.ok:
                ctx.violation('route_raised', sub_, 'export_waveforms raised %r' % r.exc, dict(f, exc=r.exc_name), tb=r.tb)
                continue
            dd = same(np.load(path), exp0 * float(factor))
            if dd:
                ctx.violation('export_mismatch', sub_, '%s samples at the ends of their range, unit factor %r: %s' % (dt, factor, dd), f)


def gen_raw(seed):
    rng = np.random.default_rng(seed)
    n = int(rng.integers(1, 81))
    nc = int(rng.integers(1, 6))
    wide = seed[-1] % 25 == 11
    if wide:
        nc = [96, 256, 384][int(rng.integers(0, 3))]        # wide probes: channel ids far larger than the number of channels asked for
    dt = RDT[int(rng.integers(0, 3))]
    be = ['flat', 'flat', 'cbin', 'npy', 'array'][int(rng.integers(0, 5))]
    A = L.unique_cells(n, nc, dt)
    if np.dtype(dt).kind == 'f' and seed[-1] % 4 == 1 and be != 'cbin':      # (mtscomp's own compressor asserts on NaN)
        # non-finite samples (saturated / missing data), also on the last channel
        A[rng.integers(0, n, size=max(1, n // 6)), -1] = [np.nan, np.inf, -np.inf][seed[-1] % 3]
        A[int(rng.integers(0, n)), 0] = np.nan
    chunk = int([1, 2, 3, 5, max(1, n - 1), n, n + 7][int(rng.integers(0, 7))])
    k = int(rng.integers(1, 4))
    parts = [n]
    if be == 'flat' and n >= k:
        cuts = np.sort(rng.permutation(n - 1)[:k - 1] + 1) if n > 1 else []
        parts = np.diff(np.r_[0, cuts, n]).astype(int).tolist()
    threads = int(rng.integers(1, 4))
    cache = bool(rng.integers(0, 2))
    nsw = int(rng.integers(1, 10)) if rng.random() < 0.9 else n + int(rng.integers(1, 4))
    many = seed[-1] % 120 == 7 and n >= 20        # size threshold: well over 1000 spikes inside one chunk
    if many:
        chunk = n + 7
        parts = [n]
    # boundaries
    if be == 'cbin':
        bounds = list(range(0, n, chunk)) + [n]
    elif be == 'flat':
        bounds = sorted(set(np.r_[0, np.cumsum(parts)].tolist() +
                            [p0 + j for p0, p in zip(np.r_[0, np.cumsum(parts)[:-1]].tolist(), parts)
                             for j in range(0, p, chunk)]))
    else:
        bounds = list(range(0, n, chunk)) + [n]
    must = {0, n - 1}
    for j in range(nsw // 2 + 2):
        must.add(min(n - 1, j))
        must.add(max(0, n - 1 - j))
    for b in bounds:
        for x in (b - 1, b):
            if 0 <= x < n:
                must.add(x)
    must = sorted(must)
    if len(must) > 14:
        must = sorted(set(rng.choice(must, size=14, replace=False).tolist()) | {0, n - 1})
    extra = rng.integers(0, n, size=int(rng.integers(0, 6)) if not many else 2300).tolist()
    samples = np.sort(np.array(must + extra)).astype(SDT[int(rng.integers(0, 4))])
    ns = len(samples)
    nloc = int(rng.integers(1, nc + 2)) if not wide else int(rng.integers(2, 6))
    # per-spike channel rows (distinct channels then -1 padding)
    rows = []
    for _ in range(ns):
        ch = rng.permutation(nc)[:min(nloc, nc)].tolist()
        ch += [-1] * (nloc - len(ch))
        if rng.random() < 0.3 and nloc >= 2:
            ch[int(rng.integers(0, nloc))] = -1
            if rng.random() < 0.7:
                ch = sorted(ch, key=lambda c: c == -1)        # (otherwise a -1 stays in the middle of the row, next to the padding at its end)
        rows.append(ch)
    common = rng.permutation(nc)[:int(rng.integers(1, (nc if not wide else 5) + 1))].tolist()
    if rng.random() < 0.4:
        common.insert(int(rng.integers(0, len(common) + 1)), -1)
    factor = FACTORS[int(rng.integers(0, 5))]
    return dict(n=n, nc=nc, dtype=dt, backend=be, chunk=chunk, parts=parts, threads=threads, cache=cache,
                nsw=nsw, bounds=bounds, samples=samples, rows=np.array(rows, dtype=np.int64), common=common,
                common_as_array=bool(rng.integers(0, 2)), factor=factor, A=A, rng=rng)


def open_reader(g, d):
    from phylib.io.traces import get_ephys_reader
    A, be = g['A'], g['backend']
    n = g['n']
    if be == 'cbin':
        rate = 100.
        p = L.write_cbin(d, A, rate, g['chunk'], do_time_diff=A.dtype.kind != 'f')
        rd = get_ephys_reader(L.open_cbin(p, g['threads']))
    else:
        rate = g['chunk'] / 600.
        if be == 'flat':
            off = [0, 16, 7, 0][(n + len(g['parts'])) % 4]          # a header before the samples of every part file
            # (every third multi-file recording: parts with the same base name in different folders)
            paths = L.write_flat(d, A, g['parts'], ext=['.bin', '.dat'][n % 2], offset=off, same_name=len(g['parts']) > 1 and n % 3 == 2)
            rd = get_ephys_reader(paths, sample_rate=rate, dtype=A.dtype, n_channels=g['nc'], offset=off)
        elif be == 'npy':
            rd = get_ephys_reader(L.write_npy(d, A), sample_rate=rate)
        else:
            rd = get_ephys_reader(A, sample_rate=rate)
    monitors.CURRENT.readers.register(rd, lambda A=A: A, allow_list=be != 'cbin', label=be)
    return rd


def _raw(case, ctx, d):
    from phylib.io.traces import extract_waveforms, export_waveforms, get_spike_waveforms
    from phylib.utils import Bunch
    g = gen_raw(case['seed'])
    A, n, nsw, samples, rows = g['A'], g['n'], g['nsw'], g['samples'], g['rows']
    nc_ = g['nc']
    a = nsw // 2
    padded = bool(((samples.astype(np.int64) - a) < 0).any() or ((samples.astype(np.int64) - a + nsw) > n).any())
    inner = set(g['bounds'][1:-1]) | set(b - 1 for b in g['bounds'][1:-1])
    on_bound = len(g['bounds']) > 2 and bool(inner & set(samples.tolist()))
    has_m1 = bool((rows == -1).any() or -1 in g['common'])
    unsigned = samples.dtype.kind == 'u'
    nontriv = padded or on_bound or has_m1 or unsigned or A.dtype != np.float64
    desc = {k: (v.tolist() if isinstance(v, np.ndarray) else v) for k, v in g.items() if k not in ('A', 'rng')}
    desc['sdtype'] = samples.dtype.name
    desc['seed'] = case['seed']
    ctx.count(1, key=hkey(tuple(case['seed'])), nontrivial=nontriv,
              cell=(g['backend'], g['dtype'], samples.dtype.name, 'chunks%d' % min(len(g['bounds']) - 1, 4)))
    ctx.sample({k: desc[k] for k in ('n', 'nc', 'dtype', 'backend', 'chunk', 'parts', 'nsw', 'samples', 'sdtype',
                                     'common', 'factor')}, every=211)
    feats = {'backend': g['backend'], 'spike_dtype_unsigned': unsigned, 'padded_start': bool(((samples.astype(np.int64) - a) < 0).any())}
    r = call(open_reader, g, d)
    if not r.ok:
        ctx.violation('open_raised', desc, 'opening the recording raised %r' % r.exc, feats, tb=r.tb)
        return
    rd = r.value
    if g['backend'] != 'cbin' and nc_ >= 2 and nc_ <= 16 and (n + nc_) % 7 == 3:
        # the recording handed to the routes is a derived reader: per-channel gains, then a channel permutation
        gains = np.arange(1, nc_ + 1).astype(A.dtype)          # (same type as the samples: the reader's declared dtype stays true)
        perm = np.arange(nc_)[::-1]
        rd = (rd * gains)[:, perm]
        A = (A * gains)[:, perm]
        monitors.CURRENT.readers.register(rd, lambda A=A: A, allow_list=True, label='derived')
        ctx.cell('derived_reader', 'gains_then_permutation')
    # ---- route (a): direct extraction, one channel list for all spikes --------------------------
    common = np.array(g['common']) if g['common_as_array'] else list(g['common'])
    exp = windows(A, samples, nsw, [g['common']] * len(samples))
    fa = dict(feats, route='extract', channels='array' if g['common_as_array'] else 'list', minus1=-1 in g['common'])
    samples0 = samples.copy()
    held_direct = None
    for attempt in (1, 2):          # the second call reuses the very same channel / sample objects
        r = call(extract_waveforms, rd, samples, common, nsw) if len(samples) % 2 else call(extract_waveforms, rd, samples, common, n_samples_waveforms=nsw)
        if not r.ok:
            ctx.violation('route_raised', desc, 'extract_waveforms (call %d) raised %r' % (attempt, r.exc),
                          dict(fa, exc=r.exc_name, call=attempt), tb=r.tb)
            break
        dd = same(r.value, exp)
        if dd:
            ctx.violation('window_mismatch', desc, 'extract_waveforms (call %d on the same arguments): %s' % (attempt, dd),
                          dict(fa, call=attempt))
            break
        held_direct = r.value           # kept by the caller: re-compared after all the later extractions, exports and lookups
        if list(np.asarray(common).tolist()) != list(g['common']) or not np.array_equal(samples, samples0):
            ctx.violation('inputs_modified', desc, 'extract_waveforms modified the channel / sample arrays of the caller', fa)
            break
    # ---- route (a'): two readers derived from the same reader read the same windows (shared state between clones)
    if nc_ >= 2:
        perm = np.roll(np.arange(nc_), 1)
        sib1, sib2 = rd[:, perm], rd[:, ::-1]
        monitors.CURRENT.readers.register(sib1, lambda A=A, perm=perm: A[:, perm], allow_list=g['backend'] != 'cbin', label='sibling')
        monitors.CURRENT.readers.register(sib2, lambda A=A: A[:, ::-1], allow_list=g['backend'] != 'cbin', label='sibling')
        chs = list(range(nc_))
        for tag, srd, At in (('perm', sib1, A[:, perm]), ('reversed', sib2, A[:, ::-1]), ('base', rd, A)):
            rs = call(extract_waveforms, srd, samples, chs, n_samples_waveforms=nsw)
            es = windows(At, samples, nsw, [chs] * len(samples))
            if not rs.ok or same(rs.value, es):
                ctx.violation('window_mismatch' if rs.ok else 'route_raised', desc,
                              'extract_waveforms on a %s reader derived from the same recording: %s' % (
                                  tag, rs.exc if not rs.ok else same(rs.value, es)), dict(feats, route='sibling_readers'), tb=rs.tb)
                break
    # ---- route (b): chunk-by-chunk export ---------------------------------------------------------
    path = os.path.join(d, 'wf.npy')
    factor = g['factor']
    if (g['n'] + nsw + len(samples)) % 9 == 4:
        factor = [0, 0.0, -3][(g['n'] + nsw) % 3]           # a unit factor of exactly zero is a factor like any other; so is a negative one
    expw = windows(A, samples, nsw, rows.tolist())
    expf = expw.astype(np.float64) * factor
    fb = dict(feats, route='export', raw_dtype=g['dtype'], factor_type=type(factor).__name__)
    r = call(export_waveforms, path, rd, samples, rows, nsw, g['cache'], factor) if len(samples) % 2 else \
        call(export_waveforms, path, rd, samples, rows, n_samples_waveforms=nsw, cache=g['cache'], sample2unit=factor)
    loaded = None
    if not r.ok:
        ctx.violation('route_raised', desc, 'export_waveforms raised %r' % r.exc, dict(fb, exc=r.exc_name), tb=r.tb)
    else:
        rl = call(np.load, path)
        if not rl.ok:
            ctx.violation('export_unloadable', desc, 'np.load of the exported file raised %r' % rl.exc, fb, tb=rl.tb)
        else:
            loaded = rl.value
            dd = same(loaded, expf)
            if dd:
                ctx.violation('export_mismatch', desc, 'exported file: ' + dd, fb)
                loaded = None
    # ---- route (c): store lookup ----------------------------------------------------------------------
    if loaded is not None and len(samples):
        rng = g['rng']
        ids = np.sort(rng.permutation(3 * len(samples))[:len(samples)]).astype(np.int64)
        store = Bunch(waveforms=loaded, spike_channels=rows.astype(np.int32), spike_ids=ids)
        for q in range(3):
            order = rng.permutation(len(ids))[:int(rng.integers(1, len(ids) + 1))]
            qch = rng.permutation(g['nc'])[:int(rng.integers(1, g['nc'] + 1))]
            if g['nc'] > 16:
                # a few channels of a wide probe, in no particular order: those of one stored spike plus strangers
                r0 = rows[order[0]]
                qch = rng.permutation(np.unique(np.r_[r0[r0 >= 0], rng.permutation(g['nc'])[:2]]))
            r = call(get_spike_waveforms, ids[order], qch, store, nsw) if len(order) % 2 else call(get_spike_waveforms, ids[order], qch, spike_waveforms=store, n_samples_waveforms=nsw)
            fc = dict(feats, route='store')
            if not r.ok:
                ctx.violation('route_raised', desc, 'get_spike_waveforms raised %r' % r.exc, dict(fc, exc=r.exc_name), tb=r.tb)
                continue
            out = r.value
            if out.shape != (len(order), nsw, len(qch)):
                ctx.violation('window_mismatch', desc, 'store lookup shape %r' % (out.shape,), fc)
                continue
            for i, o in enumerate(order):
                stored = [c for c in rows[o].tolist() if c != -1]
                for j, c in enumerate(qch.tolist()):
                    if c in stored:
                        e = window(A, samples[o], nsw, [c])[:, 0].astype(np.float64) * factor
                        if not np.array_equal(out[i, :, j], e, equal_nan=True):
                            ctx.violation('window_mismatch', desc,
                                          'store lookup: spike %d channel %d: %r != %r' % (o, c, out[i, :, j].tolist(), e.tolist()), fc)
                            break
    if held_direct is not None and same(held_direct, exp):
        ctx.violation('window_mismatch', desc, 'the array returned by extract_waveforms, correct when returned, changed during later calls: %s' % same(held_direct, exp),
                      dict(fa, held_result=True))
    if g['backend'] == 'cbin':
        call(rd.reader.close)


def _model(case, ctx, d):
    from phylib.io.model import load_model
    rng = np.random.default_rng(case['seed'])
    dt = RDT[int(rng.integers(0, 2))]
    n_samples = int(rng.integers(30, 120))
    chunk = int([2, 7, 13, 29, n_samples, 4 * n_samples][int(rng.integers(0, 6))])   # 2 -> more than 20 chunks
    spec = random_spec(rng, raw=dt, raw_parts=int(rng.integers(1, 4)), n_samples=n_samples, rate=chunk / 600.,
                       dtype_times=['uint64', 'int64', 'uint32', 'int32'][int(rng.integers(0, 4))],
                       ns=int(rng.integers(8, 30)), shanks=[0, 2][int(rng.integers(0, 2))])
    if case['seed'][2] % 6 == 4:
        # every spike belongs to one template (the others are unused)
        spec.spike_templates[:] = int(rng.integers(0, spec.n_templates))
        spec.spike_clusters = spec.spike_templates.copy()
    # force spikes at both ends
    s = spec.spike_samples
    s[0], s[-1] = 0, n_samples - 1
    if len(s) > 4:
        s[1], s[-2] = 1, n_samples - 2
    spec.spike_samples = np.sort(s)
    factor = [1.0, 1, 2.5][int(rng.integers(0, 3))]
    A = spec.traces_truth()
    desc = {'seed': case['seed'], 'spec': spec.describe(), 'samples': spec.spike_samples.tolist(), 'factor': factor,
            'chunk': chunk}
    ctx.count(1, key=hkey('model', tuple(case['seed'])), nontrivial=True, cell=('model', dt, spec.dtype_times.name))
    feats = {'route': 'model', 'spike_dtype_unsigned': spec.dtype_times.kind == 'u', 'raw_dtype': dt,
             'factor_type': type(factor).__name__}
    r = call(load_model, spec.write(d))
    if not r.ok:
        ctx.violation('route_raised', desc, 'load_model raised %r' % r.exc, dict(feats, exc=r.exc_name), tb=r.tb)
        return
    m = r.value
    try:
        monitors.CURRENT.readers.register(m.traces, lambda A=A: A, label='model.traces')
        nsw = spec.nsw
        ns = spec.n_spikes
        for q in range(3):
            ids = np.sort(rng.permutation(ns)[:int(rng.integers(1, ns + 1))])
            if q == 0:
                ids = np.arange(ns)
            ch = None if q == 1 else rng.permutation(spec.n_channels)[:int(rng.integers(1, spec.n_channels + 1))]
            chl = list(range(spec.n_channels)) if ch is None else ch.tolist()
            exp = windows(A, spec.spike_samples[ids], nsw, [chl] * len(ids))
            rr = call(m.get_waveforms, ids, ch)
            if not rr.ok:
                ctx.violation('route_raised', desc, 'get_waveforms (no store) raised %r' % rr.exc,
                              dict(feats, exc=rr.exc_name, store=False), tb=rr.tb)
                continue
            dd = same(rr.value, exp)
            if dd:
                ctx.violation('window_mismatch', desc, 'get_waveforms (no store): ' + dd, dict(feats, store=False))
        # build the store through the public API, then query it
        k_sub, c_sub = int(rng.integers(2, 8)), int(rng.integers(1, 5))
        if case['seed'][2] % 3 == 0:
            # history: an earlier export of every spike with another unit factor; then the same selection again with the
            # factor that is judged (the store must carry the new factor)
            k_sub = 1000
            call(m.save_spikes_subset_waveforms, max_n_spikes_per_template=k_sub, max_n_channels=c_sub, sample2unit=factor * 4 + 1)
            ctx.mon('store_reexported_other_factor')
        rs = call(m.save_spikes_subset_waveforms, max_n_spikes_per_template=k_sub, max_n_channels=c_sub, sample2unit=factor)
        fs = dict(feats, store=True)
        if not rs.ok:
            ctx.violation('route_raised', desc, 'save_spikes_subset_waveforms raised %r' % rs.exc,
                          dict(fs, exc=rs.exc_name), tb=rs.tb)
            return
        sw = m.spike_waveforms
        if sw is None:
            ctx.violation('store_not_loadable', desc, 'the exported subset store could not be loaded back', fs)
            return
        sid = np.asarray(sw.spike_ids)
        sch = np.asarray(sw.spike_channels)
        if sid.ndim != 1 or sch.ndim != 2 or len(sid) == 0:
            ctx.note('degenerate_store_shape')
            return
        order = rng.permutation(len(sid))
        qch = np.arange(spec.n_channels)
        rr = call(m.get_waveforms, sid[order], qch)
        if not rr.ok:
            ctx.violation('route_raised', desc, 'get_waveforms (store) raised %r' % rr.exc, dict(fs, exc=rr.exc_name), tb=rr.tb)
            return
        out = rr.value
        for i, o in enumerate(order):
            for c in sch[o].tolist():
                if c == -1:
                    continue
                e = window(A, spec.spike_samples[sid[o]], nsw, [c])[:, 0].astype(np.float64) * factor
                if out.shape[:2] != (len(order), nsw) or not np.array_equal(out[i, :, c], e):
                    ctx.violation('window_mismatch', desc, 'get_waveforms (store): spike %d channel %d: %r != %r' % (
                        sid[o], c, out[i, :, c].tolist() if out.ndim == 3 else out.shape, e.tolist()), fs)
                    return
        # spikes that are not all in the store: the model falls back to the raw data (judged for factor 1)
        missing = np.setdiff1d(np.arange(ns), sid)
        if len(missing) and factor in (1, 1.0):
            ids = np.sort(np.r_[missing[:3], sid[:2]])
            chq = rng.permutation(spec.n_channels)[:int(rng.integers(1, spec.n_channels + 1))]
            rr = call(m.get_waveforms, ids, chq)
            ctx.cell('model', 'store_fallback')
            if not rr.ok:
                ctx.violation('route_raised', desc, 'get_waveforms (spikes outside the store) raised %r' % rr.exc,
                              dict(fs, exc=rr.exc_name, fallback=True), tb=rr.tb)
            else:
                exp = windows(A, spec.spike_samples[ids], nsw, [chq.tolist()] * len(ids))
                dd = same(rr.value, exp, dtype=False)
                if dd:
                    ctx.violation('window_mismatch', desc, 'get_waveforms (spikes outside the store -> raw data): ' + dd,
                                  dict(fs, fallback=True))
        # history: the raw recording is archived away (the dataset keeps the exported store, params.py names no raw file any more);
        # a freshly loaded model still serves the stored windows
        if case['seed'][2] % 4 == 1:
            call(m.close)
            for fn_ in os.listdir(d):
                if fn_.startswith('raw_t') or fn_ == 'raw.npy' or fn_.startswith('run'):
                    p_ = os.path.join(d, fn_)
                    shutil.rmtree(p_) if os.path.isdir(p_) else os.remove(p_)
            pp_ = os.path.join(d, 'params.py')
            lines_ = ['dat_path = []\n' if l_.startswith('dat_path') else l_ for l_ in open(pp_).readlines()]
            open(pp_, 'w').writelines(lines_)
            r2 = call(load_model, pp_)
            ctx.cell('model', 'store_without_raw')
            if not r2.ok:
                ctx.violation('route_raised', desc, 'load_model of the dataset without its raw file raised %r' % r2.exc, dict(fs, exc=r2.exc_name, no_raw=True), tb=r2.tb)
                return
            m = r2.value
            rr = call(m.get_waveforms, sid[order], qch)
            out = rr.value if rr.ok else None
            if out is None or getattr(out, 'shape', (0,))[:2] != (len(order), nsw):
                ctx.violation('window_mismatch' if rr.ok else 'route_raised', desc, 'store without raw data: get_waveforms gave %r' % (
                    rr.exc if not rr.ok else (None if out is None else out.shape),), dict(fs, no_raw=True), tb=rr.tb)
                return
            for i, o in enumerate(order):
                for c in sch[o].tolist():
                    if c == -1:
                        continue
                    e = window(A, spec.spike_samples[sid[o]], nsw, [c])[:, 0].astype(np.float64) * factor
                    if not np.array_equal(out[i, :, c], e):
                        ctx.violation('window_mismatch', desc, 'store without raw data: spike %d channel %d: %r != %r' % (sid[o], c, out[i, :, c].tolist(), e.tolist()), dict(fs, no_raw=True))
                        return
    finally:
        call(m.close)
