"""C09 - Amplitude, depth, duration and peak-channel summaries follow their definitions."""
import shutil

import numpy as np

from gen.dataset import random_spec
from ref import templates as rt
from vmon.core import call, same, hkey, scratch_dir

ID = 'C09'
LEVEL = 'exploration'
MONITORS = ('M2', 'M6')
ANCHORS = ['phylib.io.model:TemplateModel.get_amplitudes_true', 'phylib.io.model:TemplateModel._amplitudes',
           'phylib.io.model:TemplateModel._channels', 'phylib.io.model:TemplateModel._waveform_durations',
           'phylib.io.model:TemplateModel.get_depths']
RULE = ('Each case = a generated dense dataset (random templates / whitening / amplitudes / features; a '
        'template without spikes at the first, a middle or the LAST position or none; clusters equal to, or '
        'curated from, the templates; sampling rate 1 / 100 / 30000; an optional template_scaling entry in params.py; dense, sparse or absent features, two datasets with > 100000 spikes (get_depths batches), some '
        'rows all-negative so that the positive part vanishes) loaded with the real load_model. Judged against '
        'the direct formulas on the arrays the harness wrote: get_amplitudes_true(factor in {1, 2.5, 1e-6}, '
        'use in {templates, clusters}) - scaled spike amplitudes, per-id means with NaN exactly at spikeless '
        'ids, rescaled waveforms whose max channel ptp equals that mean; templates_/clusters_amplitudes; '
        'templates_/clusters_channels; templates_probes; waveform durations (ms); get_depths. non-trivial = '
        'distinct datasets with >= 1 spikeless id or curated clusters.')
RULE += " Added classes: returned summary arrays overwritten in place by the caller before the summaries are read again; datasets shipping only whitening_mat_inv.npy; probes of 13-32 channels with 1-3 shanks and n_closest_channels / amplitude_threshold entries, on which the peak channel and duration of every curated cluster are also derived from the files alone (weighted mean of its templates on the dominant template's channels) wherever that definition and the extremum are unambiguous."
RULE += ' Round 6: a Kilosort-2 templates_ind.npy present; NaN first-component features (depth NaN).'
RULE += ' Round 7: probes described in metres; templates all of whose spikes have amplitude 0; a channel listed twice in a feature column table.'
RULE += ' Round 8: merged clusters whose dominant template is exactly zero on a shared site; stale spikes.depths.npy / clusters.* ALF result files lying in the dataset folder; depth tolerance relative to the coordinates.'
RULE += ' Round 9: the amplitude formula evaluated on the cluster waveform the files determine (where unique); a negative unit factor; clusters_amplitudes after a merge and a split made in place.'
RULE += ' Round 10: coupling whitening matrices scaled by 4e-9 (off-diagonals far below 1e-8).'
RULE += ' Round 11: whitening matrices that couple channels in one direction only (several shanks); a template whose first sample is NaN on every channel.'
RULE += ' Round 12: amplitudes of the lowest id scaled by 1e12; single spikes with amplitude zero or below.'
RULE += ' Round 13: datasets with as many spikes as templates.'
EXHAUSTIVE = {'quick': False, 'thorough': False}
FLOORS = {'quick': {'evaluations': 1400, 'distinct_nontrivial': 800},
          'thorough': {'evaluations': 15000, 'distinct_nontrivial': 8000}}
ASSUMPTIONS = ['rtol 1e-4 (float32 storage), NaN positions exact',
               'with use="clusters" the cluster waveforms held by the model (decided by C08) are the input of the formulas']
NSHARDS = 16


def plan(tier, seed):
    n = 1500 if tier == 'quick' else 20000
    return [{'shard': i, 'n': NSHARDS, 'seed': seed, 'cases': n // NSHARDS + 1} for i in range(NSHARDS)]


def run_shard(desc, ctx):
    for i in range(desc['cases']):
        run_case({'seed': [desc['seed'], desc['shard'], i]}, ctx)
    if desc['shard'] < (2 if desc['cases'] < 200 else 8):
        # size threshold: get_depths works in batches of 50000 spikes
        run_case({'seed': [desc['seed'], desc['shard'], 999], 'large': True}, ctx)


def ptp(x, axis):
    return x.max(axis=axis) - x.min(axis=axis)


def run_case(case, ctx):
    from phylib.io.model import load_model
    rng = np.random.default_rng(case['seed'])
    opts = dict(nc=int(rng.integers(3, 10)), nt=int(rng.integers(2, 7)), ns=int(rng.integers(8, 60)),
                wm=bool(rng.random() < 0.7), clusters=['same', 'absent', 'curated', 'curated'][int(rng.integers(0, 4))],
                spikeless=['none', 'first', 'middle', 'last'][int(rng.integers(0, 4))],
                features=['none', 'dense', 'sparse', 'sparse'][int(rng.integers(0, 4))],
                probes=bool(rng.integers(0, 2)), rate=[1., 100., 30000.][int(rng.integers(0, 3))], ncdat_extra=0)
    if rng.random() < 0.03:
        # id products that overflow 16 bits: many templates, uint16 ids, curated clusters
        opts.update(nt=300, ns=900, dtype_ids='uint16', clusters='curated', features='none')
    if rng.random() < 0.35:
        # probes wider than the channel neighbourhood of a template (12 nearest, same shank)
        opts.update(nc=[13, 20, 32][int(rng.integers(0, 3))], shanks=int(rng.integers(0, 3)), interleave=bool(rng.random() < 0.6))
    if rng.random() < 0.15:
        opts['pos_scale'] = 1e-6            # a probe described in metres
    opts['exact_amps'] = bool(rng.random() < 0.3)      # templates with a channel at exactly half the peak and an exactly silent channel
    opts['wmi_only'] = bool(opts['wm'] and rng.random() < 0.25)      # only whitening_mat_inv.npy is shipped
    if case.get('large'):
        opts.update(ns=[100000, 100001, 50000, 150000][case['seed'][1] % 4],       # also exact multiples of the batch size
                     n_samples=2000000, features=['sparse', 'dense'][case['seed'][1] % 2],
                    clusters='same', nt=4, nc=6)
    if opts['wm'] and case['seed'][-1] % 9 == 6:
        opts.update(wm_tri=['lower', 'upper'][case['seed'][-1] % 2], shanks=max(2, opts.get('shanks', 0) or 0))     # one-directional coupling, several shanks
    if opts['wm'] and not opts['wmi_only'] and case['seed'][-1] % 9 == 4:
        opts['wm_scale'] = 4e-9        # a coupling matrix in tiny units: every off-diagonal entry is far below 1e-8
    opts.update(dtype_amps=['float64', 'float32'][int(rng.integers(0, 2))],
                dtype_templates=['float32', 'float32', 'float64'][int(rng.integers(0, 3))],
                dtype_feat=['float32', 'float64'][int(rng.integers(0, 2))])
    if case['seed'][-1] % 13 == 7 and not case.get('large'):
        # as many spikes as templates.npy has rows (tables with one row per template and tables with one row per spike then
        # have the same length); several spikes per template, some templates without spikes
        opts.update(features='sparse', spikeless='none', clusters=opts['clusters'] if opts['clusters'] != 'absent' else 'same')
        opts['ns'] = opts['nt'] + 1
    spec = random_spec(rng, **opts)
    if case['seed'][-1] % 13 == 7 and not case.get('large') and spec.n_spikes == spec.n_templates + 1 and spec.pc_feature_spike_ids is None \
            and spec.template_features is None and not spec.spike_attrs:
        keep_ = slice(0, spec.n_templates)
        st_ = spec.spike_templates[keep_].copy()
        st_[:] = st_[::-1] if len(set(st_.tolist())) > 1 else st_          # (spike i does not belong to template i)
        st_[0] = st_[-1]
        spec.spike_templates = st_
        spec.spike_samples = spec.spike_samples[keep_]
        spec.amplitudes = spec.amplitudes[keep_]
        if spec.spike_clusters is not None:
            spec.spike_clusters = st_.copy()
        if spec.pc_features is not None:
            spec.pc_features = spec.pc_features[keep_]
        spec.notes['as_many_spikes_as_templates'] = True
    if rng.random() < 0.25:
        spec.notes['template_scaling'] = [8.0, 0.5][int(rng.integers(0, 2))]   # params.py option; not part of the amplitude formulas
    if rng.random() < 0.2:
        spec.notes['n_closest_channels'] = 4
    if rng.random() < 0.2:
        spec.notes['amplitude_threshold'] = 0.4
    if case['seed'][-1] % 3 == 1:
        spec.notes['ks2_templates_ind'] = True       # a Kilosort-2 style templates_ind.npy lies next to the dense templates (ignored by phylib)
    if spec.pc_feature_ind is not None and spec.pc_feature_ind.shape[1] >= 2 and case['seed'][-1] % 6 == 4:
        # a template whose column table lists one channel twice (both columns carry weight in the depth formula)
        spec.pc_feature_ind[0, 1] = spec.pc_feature_ind[0, 0]
    if case['seed'][-1] % 4 == 3 and opts['features'] != 'none' and spec.names == 'ks':
        # stale ALF-style result files of an earlier export lie in the dataset folder; the summaries are computed, not read
        import io
        for fn, arr in (('spikes.depths.npy', np.full(spec.n_spikes, 15.4)), ('clusters.depths.npy', np.full(spec.n_templates, 7.0)),
                        ('clusters.peakToTrough.npy', np.full(spec.n_templates, 0.5)), ('clusters.channels.npy', np.zeros(spec.n_templates, dtype=np.int32))):
            bio = io.BytesIO()
            np.save(bio, arr)
            spec.extra_files[fn] = bio.getvalue()
    if case['seed'][-1] % 10 == 7 and not spec.curated and spec.template_ind is None:
        # a template whose FIRST sample is NaN on every channel (the rest is data): not an empty template - its amplitudes are
        # undefined (NaN), not zero
        spec.templates[int(rng.integers(0, spec.n_templates)), 0, :] = np.nan
        spec.notes['nan_first_sample'] = True
    if case['seed'][-1] % 11 == 3:
        # the spikes of the LOWEST template id carry amplitudes twelve orders of magnitude larger than all others (another unit,
        # an artefact): the means of the other ids are unaffected
        spec.amplitudes = spec.amplitudes.astype(np.float64)
        spec.amplitudes[spec.spike_templates == spec.spike_templates.min()] *= 1e12
    if case['seed'][-1] % 6 == 1 and spec.n_spikes > 6:
        iz_ = rng.permutation(spec.n_spikes)[:4]            # single spikes with an amplitude of zero / below zero
        spec.amplitudes[iz_[:2]] = 0
        spec.amplitudes[iz_[2:]] = -1.5
    if case['seed'][-1] % 5 == 3:
        # every spike of one template has a stored amplitude of exactly 0: its mean is 0 (it has spikes), not NaN
        spec.amplitudes[spec.spike_templates == spec.spike_templates[0]] = 0
    if spec.pc_features is not None and case['seed'][-1] % 4 == 2:
        # undefined (NaN) first-component features of a few spikes on one channel: their depth is undefined as well
        for s_ in rng.permutation(spec.pc_features.shape[0])[:3]:
            spec.pc_features[s_, 0, int(rng.integers(0, spec.pc_features.shape[2]))] = np.nan
    if spec.pc_features is not None:
        neg = rng.permutation(spec.n_spikes)[:3]
        spec.pc_features[neg, 0, :] = -np.abs(spec.pc_features[neg, 0, :]) - 0.1   # positive part vanishes
    factor = [1, 2.5, 1e-6][int(rng.integers(0, 3))]
    if case['seed'][-1] % 7 == 5:
        factor = -2.34e-6           # an inverting amplifier: the formula carries the sign
    curated = spec.curated
    desc = {'seed': case['seed'], 'opts': opts, 'factor': factor}
    ctx.count(1, key=hkey(tuple(case['seed'])), nontrivial=opts['spikeless'] != 'none' or curated,
              cell=('curated' if curated else 'uncurated', 'spikeless_' + opts['spikeless'], 'feat_' + opts['features']))
    ctx.sample({'opts': opts, 'factor': factor}, every=37)
    f0 = {'curated': bool(curated), 'spikeless': opts['spikeless']}
    d = scratch_dir('c09_')
    try:
        r = call(load_model, spec.write(d))
        if not r.ok:
            ctx.violation('raised', desc, 'load_model raised %r' % r.exc, dict(f0, exc=r.exc_name), tb=r.tb)
            return
        m = r.value
        try:
            _check(m, spec, desc, ctx, f0, factor)
        finally:
            call(m.close)
    finally:
        shutil.rmtree(d, ignore_errors=True)


def _check(m, spec, desc, ctx, f0, factor):
    if desc['seed'][-1] % 2:
        from gen.poke import poke
        poke(m, ctx)
    T = spec.templates.astype(np.float64)
    wmi = spec.wmi_eff
    st = spec.spike_templates.astype(np.int64)
    sc = spec.clusters.astype(np.int64)
    amps = spec.amplitudes
    rate = spec.sample_rate

    def V(kind, msg, **extra):
        ctx.violation(kind, desc, msg, dict(f0, **extra))
    for use in ('templates', 'clusters'):
        if use == 'templates':
            data, spikes, n_wav = T, st, spec.n_templates
        else:
            data = np.asarray(m.sparse_clusters.data, dtype=np.float64)
            spikes = sc
            n_wav = data.shape[0]
            if spec.curated and spec.template_ind is None and not spec.notes.get('nan_template'):
                # where the dataset's files determine a cluster's waveform uniquely, the formula is evaluated on THAT waveform
                # (not on what the model stored)
                Dexp_, sure_ = rt.cluster_waveforms_expected(spec)
                if Dexp_.shape == data.shape and np.isfinite(Dexp_).all():
                    data = data.copy()
                    data[sure_] = Dexp_[sure_]
                    ctx.mon('cluster_waveforms_from_files', int(sure_.sum()))
        highest_spikeless = int(spikes.max()) + 1 < n_wav
        fu = {'use': use, 'highest_id_spikeless': bool(highest_spikeless)}
        r = call(m.get_amplitudes_true, sample2unit=factor, use=use)
        if not r.ok:
            V('raised', 'get_amplitudes_true(use=%s) raised %r' % (use, r.exc), exc=r.exc_name, function='get_amplitudes_true', **fu)
            continue
        try:
            sa, phys, per_id = [np.asarray(x) for x in r.value]
        except Exception as e:
            V('amplitude_mismatch', 'malformed return %r' % e, **fu)
            continue
        U = data @ wmi
        au = ptp(U, 1).max(axis=1)
        exp_sa = au[spikes] * amps * factor
        dd = same(sa, exp_sa, dtype=False, rtol=1e-4)
        if dd:
            V('amplitude_mismatch', 'use=%s scaled spike amplitudes: %s' % (use, dd), **fu)
        exp_id = np.full(n_wav, np.nan)
        for i in range(n_wav):
            sel = spikes == i
            if sel.any():
                exp_id[i] = (au[i] * amps[sel]).mean() * factor
        dd = same(per_id, exp_id, dtype=False, rtol=1e-4)
        if dd:
            V('amplitude_mismatch', 'use=%s per-id amplitudes (NaN for spikeless ids): %s' % (use, dd), **fu)
        if phys.shape != U.shape:
            V('amplitude_mismatch', 'use=%s rescaled waveforms shape %r != %r' % (use, phys.shape, U.shape), **fu)
        else:
            peak = ptp(phys.astype(np.float64), 1).max(axis=1)
            dd = same(peak, np.abs(exp_id), dtype=False, rtol=1e-4, atol=1e-12)       # (a peak-to-peak value has no sign)
            if dd:
                V('amplitude_mismatch', 'use=%s peak amplitude of the rescaled waveforms: %s' % (use, dd), **fu)
            with np.errstate(all='ignore'):
                expp = U * (exp_id / factor / au)[:, None, None] * factor
            dd = same(phys, expp, dtype=False, rtol=1e-4, atol=1e-5 * max(1e-30, float(np.nanmax(np.abs(expp))) if np.isfinite(expp).any() else 1))
            if dd:
                V('amplitude_mismatch', 'use=%s rescaled waveforms: %s' % (use, dd), **fu)
    # aliasing: the caller modifies returned arrays in place (e.g. converts peak channels to raw channel numbers);
    # later requests on the same model must not be affected (everything below is read afterwards)
    for getter in (lambda: m.templates_channels, lambda: m.clusters_channels, lambda: m.templates_waveforms_durations,
                   lambda: m.clusters_amplitudes, lambda: m.get_amplitudes_true(sample2unit=factor, use='templates')[1]):
        rg = call(getter)
        if rg.ok and isinstance(rg.value, np.ndarray) and rg.value.flags.writeable and rg.value.size:
            rg.value[...] = rg.value[::-1].copy() + 3 if rg.value.ndim == 1 else rg.value * 0
            ctx.mon('returned_array_modified')
    # mean stored amplitudes over ids present
    for name, spikes in (('templates_amplitudes', st), ('clusters_amplitudes', sc)):
        r = call(lambda: getattr(m, name))
        ids = np.unique(spikes)
        exp = np.array([amps[spikes == i].mean() for i in ids])
        if not r.ok:
            V('raised', '%s raised %r' % (name, r.exc), exc=r.exc_name, function=name)
        else:
            dd = same(r.value, exp, dtype=False, rtol=1e-6)
            if dd:
                V('summary_mismatch', '%s: %s' % (name, dd), function=name)
    # peak channels, probes, durations on the stored (whitened) waveforms
    Dc = np.asarray(m.sparse_clusters.data, dtype=np.float64)
    for name, data in (('templates', T), ('clusters', Dc)):
        pk = ptp(data, 1).argmax(axis=1)
        r = call(lambda: getattr(m, name + '_channels'))
        if not r.ok or same(r.value, pk, dtype=False):
            V('summary_mismatch' if r.ok else 'raised', '%s_channels: %s' % (name, r.exc if not r.ok else same(r.value, pk, dtype=False)),
              function=name + '_channels')
        dur = np.array([(data[i, :, pk[i]].argmax() - data[i, :, pk[i]].argmin()) / rate * 1e3 for i in range(len(data))])
        r = call(lambda: getattr(m, name + '_waveforms_durations'))
        if not r.ok or same(r.value, dur, dtype=False, rtol=1e-9):
            V('summary_mismatch' if r.ok else 'raised', '%s_waveforms_durations: %s' % (
                name, r.exc if not r.ok else same(r.value, dur, dtype=False, rtol=1e-9)), function=name + '_waveforms_durations')
    # curated datasets: peak channel and duration of every cluster whose waveform the dataset's files determine
    # uniquely (weighted mean of its templates on the dominant template's channels), where the extremum is clear
    if spec.curated and spec.template_ind is None:
        Dexp, sure = rt.cluster_waveforms_expected(spec)
        rch, rdu = call(lambda: np.asarray(m.clusters_channels)), call(lambda: np.asarray(m.clusters_waveforms_durations))
        for c in np.nonzero(sure)[0]:
            pk = rt.clear_argmax(ptp(Dexp[c:c + 1], 1)[0])
            if pk is None or not Dexp[c].any():
                continue
            ctx.mon('curated_cluster_summaries_from_files')
            if rch.ok and len(rch.value) > c and int(rch.value[c]) != pk:
                V('summary_mismatch', 'clusters_channels[%d] = %r, but the weighted mean of its templates peaks on channel %d' % (
                    c, rch.value[c], pk), function='clusters_channels', from_files=True)
                break
            hi, lo = rt.clear_argmax(Dexp[c][:, pk]), rt.clear_argmax(-Dexp[c][:, pk])
            if hi is None or lo is None:
                continue
            if rdu.ok and len(rdu.value) > c and not np.isclose(rdu.value[c], (hi - lo) / rate * 1e3, rtol=1e-9):
                V('summary_mismatch', 'clusters_waveforms_durations[%d] = %r, expected %r from the weighted mean of its templates' % (
                    c, rdu.value[c], (hi - lo) / rate * 1e3), function='clusters_waveforms_durations', from_files=True)
                break
    r = call(lambda: m.templates_probes)
    probes = spec.probes if spec.probes is not None else np.zeros(spec.n_channels, int)
    if not r.ok or same(r.value, probes[ptp(T, 1).argmax(axis=1)], dtype=False):
        V('summary_mismatch' if r.ok else 'raised', 'templates_probes: %r' % (r.exc if not r.ok else r.value,), function='templates_probes')
    # depths
    r = call(m.get_depths)
    ff = {'function': 'get_depths', 'features': desc['opts']['features']}
    if spec.pc_features is None:
        if r.ok and r.value is not None:
            V('summary_mismatch', 'get_depths without features returned %r' % (r.value,), **ff)
    elif not r.ok:
        V('raised', 'get_depths raised %r' % r.exc, exc=r.exc_name, **ff)
    else:
        F = spec.pc_features[:, 0, :].astype(np.float64)        # (ns, nloc) first component
        nloc = F.shape[1]
        cols = spec.pc_feature_ind.astype(np.int64)[st] if spec.pc_feature_ind is not None else \
            np.tile(np.arange(nloc), (spec.n_spikes, 1))
        w = np.maximum(F, 0) ** 2
        with np.errstate(all='ignore'):
            exp = (spec.positions[cols, 1] * w).sum(axis=1) / w.sum(axis=1)
        exp[w.sum(axis=1) <= 0] = np.nan
        # float32 feature weights: absolute error scales with the largest channel depth, not with the result
        dd = same(r.value, exp, dtype=False, rtol=1e-4, atol=1e-5 * max(1e-300, float(np.abs(spec.positions[:, 1]).max())))
        if dd:
            V('summary_mismatch', 'get_depths: %s' % dd, **ff)
    # history: the caller reassigns spikes in the model's own cluster vector (manual curation works on it in place: a merge
    # into an existing id and a split into a new id); the per-cluster means are those of the assignment as it is now
    scm = getattr(m, 'spike_clusters', None)
    if isinstance(scm, np.ndarray) and scm.flags.writeable and amps is not None and len(np.unique(scm)) >= 2 and desc['seed'][-1] % 2 == 0:
        ids0 = np.unique(scm)
        scm[scm == ids0[0]] = ids0[-1]
        half = np.nonzero(scm == ids0[-1])[0][::2]
        scm[half] = ids0[-1] + 2
        now = np.asarray(scm).astype(np.int64)
        ctx.mon('means_after_in_place_curation')
        r = call(lambda: m.clusters_amplitudes)
        exp = np.array([amps[now == i].mean() for i in np.unique(now)])
        if not r.ok or same(r.value, exp, dtype=False, rtol=1e-6):
            V('summary_mismatch' if r.ok else 'raised', 'clusters_amplitudes after the caller merged cluster %d into %d and split %d off: %s' % (
                ids0[0], ids0[-1], ids0[-1] + 2, r.exc if not r.ok else same(r.value, exp, dtype=False, rtol=1e-6)),
              function='clusters_amplitudes', after_curation=True)
