"""C01 - Raw-data reader indexing equals NumPy indexing of the concatenated recording."""
import itertools
import os
import shutil

import numpy as np

from gen import layouts as L
from vmon.core import call, same, hkey, scratch_dir
from vmon import monitors

ID = 'C01'
LEVEL = 'exploration'
MONITORS = ('M1', 'M2', 'M6')
ANCHORS = ['phylib.io.traces:_get_subitems', 'phylib.io.traces:_find_chunks',
           'phylib.io.traces:BaseEphysReader.__getitem__', 'phylib.io.traces:_memmap_flat',
           'phylib.io.traces:FlatEphysReader._get_part', 'phylib.io.traces:MtscompEphysReader._get_part',
           'phylib.io.traces:ArrayEphysReader._get_part', 'phylib.io.traces:_get_ephys_constructor',
           'phylib.io.traces:get_ephys_reader']
RULE = ('Layouts: flat files (.dat/.bin/.raw/.mda, header offset 0/1/7/16) for EVERY composition of n into '
        'parts >= 1 (n <= N), .npy, in-memory array, .cbin (chunk lengths 1,2,3,n; 1-3 decoder threads); '
        'dtypes uint8/int16/uint16/int32/float32/float64 and big-endian >i2/>f4/>u2; 1,2,3,5 channels; unique cell values. Per '
        'layout: every int in [-n,n) (int, np.int64, np.int16), every slice with bounds in {None} U [-n,n] '
        'selecting >= 1 row, every non-empty strictly increasing index set as list / int64 / int32 / '
        'uint16 array (not on cbin), each alone and with 4 column selectors (slice, reversed slice, '
        'index list, permutation array); reader attributes vs the array. thorough adds random layouts '
        'up to 300 rows with boundary-hugging index sets. Expected value = NumPy indexing of the array '
        'the harness wrote (driver oracle) and, independently, monitor M1. non-trivial = distinct '
        '(layout, item, cols) on a layout with >= 2 parts/chunks where the item touches a '
        'boundary-adjacent row, has a negative bound or spans >= 2 parts.')
RULE += " Added classes: slice bounds and integers given as NumPy scalars of every integer dtype (int16/uint16/int64/uint64); flat readers constructed from relative paths and read after a chdir into a directory holding same-named decoy files; every k-th returned block is overwritten in place by the caller before the next read (results must be the caller's own)."
RULE += ' Round 5: part files reached through symbolic links; recordings of 2000-3000 rows with index arrays of >= 1024 entries covering the first / last row of every file; a second selector on top of the lazy channel selection, reader[:, c1][rows, c2].'
RULE += ' Round 6: recordings of 12 x 3 and 40 x 2 rows with every pair of rows as an index list; up to 60 results per layout held by the caller and re-compared after all later reads; part files ending in an incomplete row.'
RULE += ' Round 7: parts with equal base names in different folders; parts with different valid extensions; a 70-file recording with a header.'
RULE += ' Round 8: one selector object applied twice in a chain; a dtype keyword contradicting the npy / array backend; one 21 MiB read over three files.'
RULE += ' Round 9: 60 short-lived readers per file count, each dropped before the next is opened; files named through <symlinked folder>/.. with a decoy beside the link; rates at which the last file is exactly one or two 600-second chunks; compressed files with unequal chunk lengths.'
RULE += " Round 10: file names with several dots; column-major .npy files; a compressed file opened with a header kept elsewhere (another recording's header lies beside the data)."
RULE += ' Round 11: a file listed twice in one recording; runs of consecutive rows that end at the maximum of a uint8 / int8 index array.'
RULE += ' Round 12: in-memory arrays that are column-major or strided views, edited by their owner after the reader was created.'
RULE += ' Round 13: row selectors written as one-element tuples; a 140-file recording.'
EXHAUSTIVE = {'quick': True, 'thorough': True}
EXHAUSTIVE_SCOPE = {'quick': 'n <= 6, all compositions; dtype/channel/offset axes rotate (not crossed)',
                    'thorough': 'n <= 9, all compositions x all dtypes; random larger layouts sampled'}
FLOORS = {'quick': {'evaluations': 200000, 'distinct_nontrivial': 20000,
                    'monitors': {'M1.checked': 200000}},
          'thorough': {'evaluations': 2000000, 'distinct_nontrivial': 200000,
                       'monitors': {'M1.checked': 2000000}}}
ASSUMPTIONS = ['empty slices, non-unit steps, unsorted/negative index lists, list indices on cbin and '
               'files with a trailing partial row are outside the statement: never judged',
               'cbin float data is generated with both diffs disabled (mtscomp is exact only then)']
DTYPES = ['int16', 'float32', 'uint8', 'uint16', 'int32', 'float64']
BE_DTYPES = ['>i2', '>f4', '>u2']        # non-native byte order (flat / npy / array backends)
NCS = [1, 2, 3, 5]
OFFSETS = [0, 1, 7, 16]
NSHARDS = 16


def plan(tier, seed):
    N = 6 if tier == 'quick' else 9
    return [{'shard': i, 'n': NSHARDS, 'N': N, 'seed': seed, 'tier': tier} for i in range(NSHARDS)]


def layouts(N, tier, seed):
    k = seed
    for n in range(1, N + 1):
        for parts in L.compositions(n):
            dts = DTYPES if tier == 'thorough' and n <= 7 else [DTYPES[k % 6], DTYPES[(k + 3) % 6]]
            for dt in dts:
                k += 1
                yield {'backend': 'flat', 'ext': L.FLAT_EXT[k % 4], 'offset': OFFSETS[(k // 3) % 4],
                       'dtype': dt, 'nc': NCS[(k // 2) % 4], 'parts': parts, 'relative': k % 9 == 4, 'symlink': k % 9 == 7, 'dotdot': k % 9 == 8, 'stray': k % 9 == 2,
                       'same_name': k % 9 == 5, 'mixed_ext': k % 9 == 6}
        for j, parts in enumerate(L.compositions(n)):
            if j % 3 == n % 3:
                k += 1
                yield {'backend': 'flat', 'ext': L.FLAT_EXT[k % 4], 'offset': OFFSETS[k % 4], 'dtype': BE_DTYPES[k % 3],
                       'nc': NCS[k % 4], 'parts': parts}
        for dt in DTYPES + BE_DTYPES[:1]:
            k += 1
            yield {'backend': 'npy', 'dtype': dt, 'nc': NCS[k % 4], 'parts': [n]}
            yield {'backend': 'array', 'dtype': dt, 'nc': NCS[(k + 1) % 4], 'parts': [n]}
        for j, parts in enumerate(L.compositions(n)):
            if len(parts) >= 2 and len(set(parts)) >= 2 and j % 5 == n % 5:
                k += 1
                # a compressed file stored in chunks of unequal length
                yield {'backend': 'cbin', 'dtype': ['int16', 'int32', 'uint16'][k % 3], 'nc': NCS[k % 4], 'parts': [n], 'chunk_len': max(parts),
                       'threads': 1 + k % 3, 'lens': list(parts)}
        for cl in sorted(set([1, 2, 3, n])):
            for th in (1, 2, 3):
                k += 1
                yield {'backend': 'cbin', 'dtype': ['int16', 'int32', 'uint16', 'float32'][k % 4],
                       'nc': NCS[k % 4], 'parts': [n], 'chunk_len': cl, 'threads': th}


def run_shard(desc, ctx):
    for i, lay in enumerate(layouts(desc['N'], desc['tier'], desc['seed'])):
        if i % desc['n'] == desc['shard']:
            run_case(dict(lay, items='all', cols='all'), ctx)
    # long recordings: index arrays of >= 1024 entries that include the first / last row of every file
    sh = desc['shard']
    parts = [[700, 500, 900], [1024, 1024], [1, 1500, 2, 600], [2048]][sh % 4]
    n_ = sum(parts)
    b_ = np.r_[0, np.cumsum(parts)]
    rngl = np.random.default_rng([desc['seed'], sh, 101])
    keep = np.sort(rngl.permutation(n_)[:max(1100, n_ // 2)])
    edge = np.unique(np.clip(np.r_[b_[:-1], b_[1:] - 1, b_[1:-1] + 1], 0, n_ - 1))
    long_items = [np.arange(n_), np.unique(np.r_[keep, edge]), np.setdiff1d(keep, edge), np.arange(0, n_, 2)[:1024], np.arange(1, n_, 2)[:1023],
                  np.unique(np.r_[keep, edge]).astype(np.int32),
                  # runs of consecutive rows that end at the largest value of a narrow index dtype
                  np.arange(250, 256, dtype=np.uint8), np.arange(120, 128, dtype=np.int8), np.arange(200, 256).astype(np.uint8), slice(None), slice(int(b_[1]) - 3 if len(parts) > 1 else 5, None), -1, int(b_[-2])]
    run_case({'backend': 'flat' if sh % 8 < 6 else 'npy', 'ext': L.FLAT_EXT[sh % 4], 'offset': OFFSETS[sh % 4], 'dtype': DTYPES[sh % 6], 'nc': 2,
              'parts': parts if sh % 8 < 6 else [n_], 'items': long_items, 'cols': [None, [1, 0]]}, ctx)
    # one read of more than 16 MiB spanning three files
    if sh == 7:
        run_case({'kind': 'big_read'}, ctx)
    # many short-lived readers in one process: each is dropped before the next one (same number of files, other lengths) is opened
    if sh in (2, 9, 12):
        run_case({'kind': 'churn', 'nparts': {2: 2, 9: 3, 12: 4}[sh]}, ctx)
    # recordings made of many files (12 x 3 rows, 40 x 2 rows): every pair of rows as an index list, plus random longer lists
    if sh % 4 in (1, 3):
        parts = [[3] * 12, [2] * 40][sh % 4 // 2] if sh != 5 else [2] * 140        # (140 files: more than a pool of 64 or 128 open maps)
        n_ = sum(parts)
        rngm = np.random.default_rng([desc['seed'], sh, 202])
        pairs = [[i, j] for i in range(n_) for j in range(i + 1, n_) if (i * 31 + j) % 16 == sh]
        longer = [np.sort(rngm.permutation(n_)[:int(rngm.integers(3, 9))]).tolist() for _ in range(150)]
        run_case({'backend': 'flat', 'ext': L.FLAT_EXT[sh % 4], 'offset': OFFSETS[sh % 4] or 8, 'dtype': DTYPES[(sh + 1) % 6], 'nc': 2,
                  'parts': parts, 'items': pairs + longer + [slice(None), slice(5, n_ - 4), -1], 'cols': [None]}, ctx)
    if desc['tier'] == 'thorough':
        rng = np.random.default_rng([desc['seed'], desc['shard'], 1])
        for r in range(40):
            n = int(rng.integers(10, 300))
            k = int(rng.integers(1, 8))
            cuts = np.sort(rng.permutation(n - 1)[:k - 1] + 1)
            if rng.random() < 0.5 and k >= 3:
                cuts[1] = cuts[0] + 1            # a part of length 1
                cuts = np.unique(cuts)
            parts = np.diff(np.r_[0, cuts, n]).astype(int).tolist()
            be = ['flat', 'flat', 'flat', 'cbin', 'npy'][int(rng.integers(0, 5))]
            lay = {'backend': be, 'ext': L.FLAT_EXT[r % 4], 'offset': OFFSETS[r % 4],
                   'dtype': DTYPES[int(rng.integers(0, 6))] if be != 'cbin' else 'int16',
                   'nc': NCS[int(rng.integers(0, 4))], 'parts': parts if be == 'flat' else [n],
                   'chunk_len': int(rng.integers(1, 40)), 'threads': int(rng.integers(1, 4)),
                   'items': 'random', 'cols': 'all', 'rseed': [desc['seed'], desc['shard'], r]}
            run_case(lay, ctx)


def all_items(n, lists):
    out = []
    for i in range(-n, n):
        out.append(i)
        out.append(np.int64(i))
        out.append(np.int16(i))
    vals = [None] + list(range(-n, n + 1))
    for a in vals:
        for b in vals:
            if len(range(*slice(a, b).indices(n))) >= 1:
                out.append(slice(a, b))
                if a is not None and b is not None and a >= 0 and b >= 0 and (a + b) % 3 == 0:
                    # bounds carried by NumPy scalars (signed and unsigned)
                    out.append(slice(np.uint16(a), np.int64(b)))
                    out.append(slice(np.int32(a), np.uint8(b)))
    if lists:
        for r in range(1, n + 1):
            for sub in itertools.combinations(range(n), r):
                out.append(list(sub))
                out.append(np.array(sub, dtype=np.int64))
                out.append(np.array(sub, dtype=np.int32))
                out.append(np.array(sub, dtype=np.uint16))
    return out


def random_items(n, bounds, lists, rng):
    out = [0, -1, n - 1, -n, np.int64(n // 2), slice(None), slice(None, -1), slice(1, None),
           slice(-n, n), slice(-1, None)]
    for b in bounds[1:-1]:
        out += [b, b - 1, b - n, slice(b - 1, b + 1), slice(b, b + 1), slice(b - 1, b), slice(None, b),
                slice(b, None), slice(b - n - 1, b - n + 1)]
    for _ in range(150):
        a, b = sorted(rng.integers(-n, n + 1, size=2).tolist())
        s = slice(a, b)
        if len(range(*s.indices(n))) >= 1:
            out.append(s)
        out.append(int(rng.integers(-n, n)))
    if lists:
        for _ in range(60):
            k = int(rng.integers(1, min(n, 12) + 1))
            out.append(np.sort(rng.permutation(n)[:k]).astype([np.int64, np.int32, np.uint16][_ % 3]))
        hug = sorted(set(x for b in bounds[1:-1] for x in (b - 1, b) if 0 <= x < n))
        if hug:
            out += [hug, np.array(hug), hug[::2]]
        out.append(list(range(n)))
    return out


def col_selectors(nc):
    perm = np.roll(np.arange(nc), 1)
    return [None, slice(0, max(1, nc - 1)), slice(None, None, -1), [nc - 1, 0], perm]


def item_key(it):
    if isinstance(it, slice):
        return ('s', type(it.start).__name__, it.start if it.start is None else int(it.start), it.stop if it.stop is None else int(it.stop))
    if isinstance(it, (list, np.ndarray)):
        return (type(it).__name__, str(getattr(it, 'dtype', '')), tuple(int(x) for x in it))
    return (type(it).__name__, int(it))


def item_kind(it):
    if isinstance(it, slice):
        return 'slice'
    if isinstance(it, list):
        return 'list'
    if isinstance(it, np.ndarray):
        return 'array_' + it.dtype.name
    return type(it).__name__


def open_layout(lay, d):
    from phylib.io.traces import get_ephys_reader
    n = sum(lay['parts'])
    nc = lay['nc']
    dt = np.dtype(lay['dtype'])
    A = L.unique_cells(n, nc, dt)
    rate = 100.
    be = lay['backend']
    if be != 'cbin' and (n + len(lay['parts']) + nc) % 5 == 0:
        # a sampling rate at which the last (or only) file holds exactly one or two 600-second chunks
        last = lay['parts'][-1]
        rate = (last // 2 if last % 2 == 0 and n % 2 else last) / 600.
    if be == 'flat':
        ext_ = lay['ext'] if not lay.get('mixed_ext') else [e for e in L.FLAT_EXT if e != '.mda'] if lay['ext'] != '.mda' else lay['ext']
        # (file names with several dots, as acquisition systems write them: run_g0_t0.imec0.ap_t9.bin)
        paths = L.write_flat(d, A, lay['parts'], offset=lay['offset'], ext=ext_, stray=bool(lay.get('stray')) and nc * dt.itemsize > 1,
                             same_name=bool(lay.get('same_name')), stem='rec' if (n + nc) % 4 != 1 else 'run_g0_t0.imec0.ap')
        if lay.get('symlink'):
            # the sorting folder holds links to raw data stored elsewhere
            from pathlib import Path
            links = []
            os.makedirs(os.path.join(d, 'links'), exist_ok=True)
            for p in paths:
                lk = Path(d) / 'links' / p.name
                os.symlink(p, lk)
                links.append(lk)
            paths = links
        if lay.get('dotdot'):
            # files named through <symlinked folder>/.. : the system resolves that to the parent of the link TARGET, where the
            # recording is; a decoy with the same names lies next to the link itself
            from pathlib import Path
            os.makedirs(os.path.join(d, 'sub'), exist_ok=True)
            os.makedirs(os.path.join(d, 'work'), exist_ok=True)
            os.symlink(os.path.join(d, 'sub'), os.path.join(d, 'work', 'lnk'))
            if not lay.get('same_name'):
                L.write_flat(os.path.join(d, 'work'), A[::-1].copy(), lay['parts'], offset=lay['offset'], ext=ext_)
            paths = [Path(d) / 'work' / 'lnk' / '..' / p.relative_to(d) for p in paths]
        if len(paths) >= 2 and (n + nc + len(paths)) % 6 == 3 and not lay.get('relative') and not lay.get('dotdot'):
            # one file listed twice in the recording (blank, stimulus, blank again): the recording is what the list says
            paths = list(paths) + [paths[0]]
            A = np.vstack([A, A[:lay['parts'][0]]]).astype(A.dtype)          # (vstack hands back native byte order)
            lay = dict(lay, parts=list(lay['parts']) + [lay['parts'][0]])
            n = A.shape[0]
        arg = paths if (len(paths) > 1 or n % 2) else paths[0]
        if lay.get('relative'):
            # environment: files named relative to the working directory, which changes before the first read;
            # a decoy with the same names (other bytes) sits in the new working directory
            from pathlib import Path
            decoy = os.path.join(d, 'elsewhere')
            os.makedirs(decoy, exist_ok=True)
            L.write_flat(decoy, A[::-1].copy(), lay['parts'], offset=lay['offset'], ext=lay['ext'])
            os.chdir(d)
            arg = [Path(p.name) for p in paths]
        r = call(get_ephys_reader, arg, sample_rate=rate, dtype=dt, n_channels=nc, offset=lay['offset'])
        if lay.get('relative'):
            os.chdir(decoy)
        bounds = np.r_[0, np.cumsum(lay['parts'])].tolist()
    elif be == 'npy':
        p = L.write_npy(d, A, fortran=(n + nc) % 3 == 1, stem='rec' if (n + nc) % 4 != 1 else 'rec.session1.lf')
        # (the dtype / n_channels keywords describe flat files; an .npy file or an array knows its own)
        r = call(get_ephys_reader, p if n % 2 else [p], sample_rate=rate, dtype=dt if n % 3 else np.dtype('int8'), n_channels=nc)
        bounds = [0, n]
    elif be == 'array':
        if (n + nc) % 4 == 2:
            # the caller's array is column-major, or a strided view of a wider buffer (what it hands over is what is read, also
            # after the caller has written into it)
            if n % 2:
                A = np.asfortranarray(A)
            else:
                wide = np.zeros((n, 2 * nc), dtype=A.dtype)
                wide[:, ::2] = A
                A = wide[:, ::2]
        r = call(get_ephys_reader, A, sample_rate=rate) if n % 2 else call(get_ephys_reader, A, sample_rate=rate, dtype=np.dtype('uint8'))
        bounds = [0, n]
    else:
        fl = dt.kind == 'f'
        if lay.get('lens'):
            p = L.write_cbin_irregular(d, A, rate, lay['lens'])
        else:
            p = L.write_cbin(d, A, rate, lay['chunk_len'], n_threads=1, do_time_diff=not fl)
        if (n + nc + lay['chunk_len']) % 3 == 1:
            # the header file is kept elsewhere and handed to the reader explicitly; another recording's header lies beside the data
            ch = str(p)[:-5] + '.ch'
            os.makedirs(os.path.join(d, 'meta'), exist_ok=True)
            ch2 = os.path.join(d, 'meta', 'header.ch')
            os.replace(ch, ch2)
            if n > 1 and not lay.get('lens'):
                L.write_cbin(os.path.join(d, 'meta'), A[:n - 1], rate, max(1, lay['chunk_len'] - 1) or 1, stem='other')
                os.replace(os.path.join(d, 'meta', 'other.ch'), ch)
            r = call(lambda: get_ephys_reader(L.open_cbin(p, lay['threads'], cmeta=ch2)))
        else:
            r = call(lambda: get_ephys_reader(L.open_cbin(p, lay['threads'])))
        bounds = list(range(0, n, lay['chunk_len'])) + [n] if not lay.get('lens') else np.r_[0, np.cumsum(lay['lens'])].tolist()
    return A, r, bounds, rate


def _big_read(ctx):
    from phylib.io.traces import get_ephys_reader
    d = scratch_dir('c01b_')
    try:
        n, nc = 175000, 64
        A = (np.arange(n * nc, dtype=np.int64) * 7919 % 65521 - 32000).astype(np.int16).reshape(n, nc)
        parts = [60000, 45000, 70000]
        paths = L.write_flat(d, A, parts, ext='.bin')
        r = call(get_ephys_reader, paths, sample_rate=100., dtype=A.dtype, n_channels=nc)
        ctx.count(1, cell=('flat', 'int16', 'big_read'))
        if not r.ok:
            ctx.violation('open_raised', {'kind': 'big_read'}, 'get_ephys_reader raised %r' % r.exc, {'backend': 'flat'}, tb=r.tb)
            return
        for it in (slice(None), slice(100, n - 100), np.arange(0, n, 1)[::1]):
            rr = call(lambda: r.value[it])
            if not rr.ok or same(rr.value, A[it]):
                ctx.violation('read_mismatch' if rr.ok else 'read_raised', {'kind': 'big_read'}, 'a read of %d MiB over three files: %s' % (
                    A[it].nbytes >> 20, rr.exc if not rr.ok else same(rr.value, A[it])), {'backend': 'flat', 'big_read': True}, tb=rr.tb)
                return
    finally:
        shutil.rmtree(d, ignore_errors=True)


def _churn(case, ctx):
    import gc
    from phylib.io.traces import get_ephys_reader
    k = case['nparts']
    comps = {2: [(2, 6), (6, 2), (1, 7), (5, 3), (3, 5), (7, 1)], 3: [(2, 3, 4), (4, 3, 2), (1, 1, 7), (6, 2, 1), (3, 3, 3)],
             4: [(1, 2, 3, 4), (4, 3, 2, 1), (2, 2, 2, 4), (5, 1, 1, 3)]}[k]
    d = scratch_dir('c01c_')
    try:
        for rnd in range(60):
            parts = list(comps[rnd % len(comps)])
            n = sum(parts)
            A = (np.arange(n * 3, dtype=np.int16).reshape(n, 3) + 100 * rnd).astype(np.int16)
            os.makedirs(os.path.join(d, 'r%02d' % rnd))
            paths = L.write_flat(os.path.join(d, 'r%02d' % rnd), A, parts, ext='.bin')
            r = call(get_ephys_reader, paths, sample_rate=1000., dtype=A.dtype, n_channels=3)
            ctx.count(1, key=hkey('churn', k, rnd), nontrivial=True, cell=('flat', 'int16', 'churn%d' % k))
            if not r.ok:
                ctx.violation('open_raised', case, 'get_ephys_reader raised %r' % r.exc, {'backend': 'flat'}, tb=r.tb)
                return
            for it in ([1, 3, 4, 6], list(range(n)), np.array([0, n - 1]), [parts[0] - 1, parts[0]], slice(1, n - 1)):
                rr = call(lambda: r.value[it])
                if not rr.ok or same(rr.value, A[it]):
                    ctx.violation('read_mismatch' if rr.ok else 'read_raised', dict(case, round=rnd, parts=parts, item=repr(it)),
                                  'reader number %d opened in this process (parts %r), reader[%r]: %s' % (
                                      rnd, parts, it, rr.exc if not rr.ok else same(rr.value, A[it])), {'backend': 'flat', 'churn': True}, tb=rr.tb)
                    return
            del r, rr
            gc.collect()
    finally:
        shutil.rmtree(d, ignore_errors=True)


def run_case(case, ctx):
    if case.get('kind') == 'big_read':
        return _big_read(ctx)
    if case.get('kind') == 'churn':
        return _churn(case, ctx)
    d = scratch_dir('c01_')
    cwd0 = os.getcwd()
    try:
        _run(case, ctx, d)
    finally:
        os.chdir(cwd0)
        shutil.rmtree(d, ignore_errors=True)


def _run(case, ctx, d):
    lay = case
    A, r, bounds, rate = open_layout(lay, d)
    n, nc = A.shape
    be = lay['backend']
    layout_key = (be, lay.get('ext'), lay.get('offset'), lay['dtype'], nc, tuple(lay['parts']),
                  lay.get('chunk_len'), lay.get('threads'), tuple(lay.get('lens') or ()))
    feats = {'backend': be}
    if not r.ok:
        ctx.count(1)
        ctx.violation('open_raised', case, 'get_ephys_reader raised %r' % r.exc, feats, tb=r.tb)
        return
    rd = r.value
    lists = be != 'cbin'
    if be == 'array' and not A.flags.c_contiguous and A.flags.writeable and n >= 2:
        # the owner of the array goes on writing into it after the reader exists (an acquisition buffer): reads show the array as it is
        A[::2] = A[::2][:, ::-1].copy()
        ctx.cell('array', 'edited_after_open')
    monitors.CURRENT.readers.register(rd, lambda A=A: A, allow_list=lists, label=be)
    # attributes
    att = call(lambda: (tuple(rd.shape), rd.n_samples, rd.n_channels, np.dtype(rd.dtype), rd.duration))
    ctx.count(1, cell=(be, lay['dtype'], 'attrs'))
    if not att.ok:
        ctx.violation('attr_raised', case, 'attribute access raised %r' % att.exc, feats, tb=att.tb)
    else:
        exp = ((n, nc), n, nc, A.dtype, n / rate)
        if att.value != exp:
            ctx.violation('attribute_mismatch', case, 'attributes %r != %r' % (att.value, exp), feats)
    if lay['items'] == 'all':
        items = all_items(n, lists)
    elif lay['items'] == 'random':
        items = random_items(n, bounds, lists, np.random.default_rng(lay['rseed']))
    else:
        items = lay['items']
    cols_l = col_selectors(nc) if lay['cols'] == 'all' else lay['cols']
    multi = len(bounds) > 2
    inner = set(bounds[1:-1]) | set(b - 1 for b in bounds[1:-1])
    sampled = False
    held = []          # results the caller keeps: they must still be right after all the later reads
    # the row selector written as a one-element tuple (reader[rows,] is reader[rows])
    if n >= 3:
        for it1 in [(slice(1, n - 1),), (n // 2,), (slice(None),)] + ([([0, n - 1],), (np.array([1, n - 2]),)] if lists and n >= 4 else []):
            ctx.count(1, cell=(be, lay['dtype'], 'tuple1', 'cols0'))
            rr = call(lambda: rd[it1])
            e1 = A[it1] if not isinstance(it1[0], int) else A[it1[0]][None, :]
            if not rr.ok or same(rr.value, e1):
                ctx.violation('read_mismatch' if rr.ok else 'read_raised', dict(case, item=repr(it1)), 'reader[%r]: %s' % (it1, rr.exc if not rr.ok else same(rr.value, e1)), feats, tb=rr.tb)
                break
    for it in items:
        if isinstance(it, slice):
            rows = range(*it.indices(n))
            if len(rows) == 0:
                ctx.note('skipped_empty_slice')      # outside the statement (selects no row)
                continue
            neg = (it.start is not None and it.start < 0) or (it.stop is not None and it.stop < 0)
            touched = (rows[0], rows[-1])
        elif isinstance(it, (list, np.ndarray)):
            rows = [int(x) for x in it]
            neg, touched = False, rows
        else:
            rows = [int(it) % n]
            neg, touched = int(it) < 0, rows
        spans = multi and (np.searchsorted(bounds, rows[0], 'right') != np.searchsorted(bounds, rows[-1], 'right'))
        nontriv = multi and (neg or spans or any(t in inner for t in touched))
        expected_rows = A[it] if not isinstance(it, (int, np.integer)) else A[int(it)][None, :]
        if isinstance(it, list):
            expected_rows = A[np.asarray(it, dtype=np.int64)]
        kind = item_kind(it)
        for ci, cols in enumerate(cols_l):
            ctx.count(1, key=hkey(layout_key, item_key(it), ci) if nontriv else None, nontrivial=nontriv,
                      cell=(be, lay['dtype'], kind, 'cols%d' % ci))
            if cols is None:
                rr = call(lambda: rd[it])
                exp = expected_rows
            else:
                rr = call(lambda: rd[it, cols])
                exp = expected_rows[:, cols]
            if not sampled and nontriv and ci == 3:
                ctx.sample({'layout': {k: v for k, v in lay.items() if k not in ('items', 'cols')},
                            'item': it, 'cols': cols}, every=1)
                sampled = True
            f2 = dict(feats, item=kind, cols=cols is not None)
            sub = dict(lay, items=[it], cols=[cols])
            if rr.ok and cols is not None and isinstance(it, slice) and it == slice(None) and \
                    not isinstance(rr.value, np.ndarray):
                # reader[:, cols] is the documented lazy whole-recording channel selection (C02):
                # it is judged through what the derived reader returns
                clone = rr.value
                rr = call(lambda: clone[:])
            if not rr.ok:
                ctx.violation('read_raised', sub, 'reader[%r%s] raised %r' % (
                    it, '' if cols is None else ', %r' % (cols,), rr.exc), dict(f2, exc=rr.exc_name), tb=rr.tb)
                continue
            dd = same(rr.value, exp)
            if dd:
                ctx.violation('read_mismatch', sub, 'reader[%r%s]: %s' % (
                    it, '' if cols is None else ', %r' % (cols,), dd), f2)
            elif len(held) < 60 and isinstance(rr.value, np.ndarray):
                held.append((it, cols, rr.value, exp))
    for it, cols, val, exp in held:
        ctx.count(1, cell=(be, lay['dtype'], 'held_results'))
        if same(val, exp):
            ctx.violation('read_mismatch', dict(lay, items=[it], cols=[cols]), 'the result of reader[%r%s], correct when returned, changed during later reads: %s' % (
                it, '' if cols is None else ', %r' % (cols,), same(val, exp)), dict(feats, held_result=True))
            break
    # a channel selection on top of the lazy whole-recording channel selection: reader[:, c1][rows, c2]
    if lay['cols'] == 'all':
        sels = [c for c in cols_l if c is not None] + [slice(1, None)]
        row_items = [x for x in items if isinstance(x, (slice, int))][:4] + [x for x in items if isinstance(x, list)][:1]
        for c1 in sels:
            w1 = A[:, c1].shape[1]
            if w1 == 0:
                continue
            r1 = call(lambda: rd[:, c1])
            if not r1.ok or isinstance(r1.value, np.ndarray):
                continue
            same_obj = [c1] if (isinstance(c1, slice) or np.asarray(c1).max() < w1) else []      # the very same selector object applied twice
            for c2 in same_obj + [slice(None, None, -1), slice(1, None), slice(0, max(1, w1 - 1)), [w1 - 1, 0], [-1]]:
                for it in row_items:
                    e_rows = A[it] if not isinstance(it, (int, np.integer)) else A[int(it)][None, :]
                    exp = e_rows[:, c1][:, c2]
                    if exp.shape[1] == 0:
                        continue
                    ctx.count(1, cell=(be, lay['dtype'], 'chained_cols'))
                    rr = call(lambda: r1.value[it, c2])
                    if rr.ok and not isinstance(rr.value, np.ndarray):
                        rr = call(lambda v=rr.value: v[:])        # (all rows: again the lazy form)
                    if not rr.ok or same(rr.value, exp):
                        ctx.violation('read_mismatch' if rr.ok else 'read_raised', dict(lay, items=[it], cols=[c1, c2]),
                                      'reader[:, %r][%r, %r]: %s' % (c1, it, c2, rr.exc if not rr.ok else same(rr.value, exp)),
                                      dict(feats, chained_cols=True), tb=rr.tb)
                        break
    # aliasing: blocks returned earlier are modified in place by the caller; later reads must not see that
    for it in [x for x in items if isinstance(x, (slice, int))][:6]:
        rr = call(lambda: rd[it])
        if rr.ok and isinstance(rr.value, np.ndarray) and rr.value.flags.writeable and rr.value.size:
            rr.value[...] = rr.value + 7 if rr.value.dtype.kind != 'b' else rr.value
            ctx.mon('returned_block_modified')
    for it in [x for x in items if isinstance(x, (slice, int))][:6]:
        rr = call(lambda: rd[it])
        exp = A[it] if not isinstance(it, (int, np.integer)) else A[int(it)][None, :]
        ctx.count(1, cell=(be, lay['dtype'], 'after_caller_modified_blocks'))
        if not rr.ok or same(rr.value, exp):
            ctx.violation('read_mismatch', dict(lay, items=[it], cols=[None]),
                          'after the caller modified earlier results in place, reader[%r]: %s' % (
                              it, rr.exc if not rr.ok else same(rr.value, exp)), dict(feats, after_mutation=True))
            break
    if be == 'cbin':
        call(rd.reader.close)
