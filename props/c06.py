"""C06 - Sparse feature storage is densified exactly."""
import itertools
import shutil

import numpy as np

from gen.dataset import random_spec
from ref.waveforms import window
from vmon.core import call, same, hkey, scratch_dir

ID = 'C06'
LEVEL = 'exploration'
MONITORS = ('M2', 'M6')
ANCHORS = ['phylib.io.model:from_sparse', 'phylib.io.array:_index_of', 'phylib.io.model:TemplateModel.get_features',
           'phylib.io.model:TemplateModel.get_template_features', 'phylib.io.model:compute_features',
           'phylib.io.model:_compute_pcs', 'phylib.io.model:_project_pcs']
RULE = ('(a) from_sparse on generated (data, column table, requested channels) triples: 0-6 spikes, 1-5 stored '
        'columns with -1 entries, requested channel lists with unknown ids in any order, 0-2 trailing '
        'dimensions, float32/float64/int data; judged by a loop reference in the driver and by the M2 '
        'postcondition on every call anywhere. (b) get_features / get_template_features on generated datasets '
        '(dense, sparse, sparse + spike-id row table) for arbitrary spike subsets in any order x every '
        'permutation of a channel list (<= 4 channels) incl. channels stored for no template; values claimed '
        'for stored spikes. (c) no feature file but an exported spike-waveform store: features compared, up to '
        'sign per (channel, component) and only where the eigenvalues are separated, with projections on '
        'the leading principal components computed independently from the raw bytes. non-trivial = distinct '
        'cases with a discarded column, a permuted request, or a row table.')
RULE += " Added classes: -1 padded template_feature_ind / pc_feature_ind rows (padding never in the first slot, ids distinct per row); 384-channel probes with 17-40 requested channels (NumPy's sort-based isin branch); one conversion of > 50000 spikes per shard."
RULE += ' Spike-id and channel-id arrays of every integer dtype (uint8..uint64, int32, int64), read-only arrays; the returned feature block is overwritten by the caller before the next request.'
RULE += ' Round 5: row tables that list every spike grouped by template or a subset in arbitrary order; stored spikes whose values are all NaN; sparse templates whose column table is as wide as the feature store.'
RULE += ' Round 6: stores of 8-12 spikes per template and 3 channels per spike for the PCA route (requests mix spikes with and without waveform); NaN / inf template features; a stored NaN comes back as NaN.'
RULE += ' Round 7: requests in which exactly two spikes have a waveform (leading component = direction of their difference).'
RULE += ' Round 8: feature datasets with templates that own no spike.'
RULE += ' Round 9: requests naming a spike twice (ascending with as many repeats as gaps, unordered) against full stores; a smaller waveform extraction before the judged one, the store being read from the files.'
RULE += ' Round 10: column tables padded with -1 (scattered, or one whole column before a used one); requests naming ids that are no channel (n_channels, n_channels + 93).'
RULE += ' Round 11: requests made only of stored spikes in no particular order (on-the-fly route), compared with the same set in increasing order.'
RULE += ' Round 12: one on-the-fly request of 6200 stored spikes; a dataset of 2100 templates with 16-bit ids and 32 local channels.'
RULE += ' Round 13: a far unknown channel id (5000) among the requested ones.'
EXHAUSTIVE = {'quick': False, 'thorough': False}
FLOORS = {'quick': {'evaluations': 20000, 'distinct_nontrivial': 8000,
                    'monitors': {'M2.from_sparse.checked': 12000}},
          'thorough': {'evaluations': 800000, 'distinct_nontrivial': 300000,
                       'monitors': {'M2.from_sparse.checked': 500000}}}
ASSUMPTIONS = ['duplicate channels inside one stored row (ambiguous) and duplicate requested channels '
               '(NotImplementedError by design) are not judged',
               'template features with a row table are requested for stored spikes in increasing order',
               'PCA: components whose eigenvalue is closer than 1e-6 (relative) to a neighbour are not judged']
NSHARDS = 16


def plan(tier, seed):
    nt, nm, npca = (20000, 500, 64) if tier == 'quick' else (1000000, 20000, 1500)
    return [{'shard': i, 'n': NSHARDS, 'seed': seed, 'triples': nt // NSHARDS, 'models': nm // NSHARDS // 8 + 1,
             'pca': npca // NSHARDS} for i in range(NSHARDS)]


def run_shard(desc, ctx):
    for i in range(desc['triples']):
        run_case({'kind': 'triple', 'seed': [desc['seed'], desc['shard'], i]}, ctx)
    if desc['shard'] < 5:
        run_case({'kind': 'triple', 'seed': [desc['seed'], desc['shard'], 0], 'big': True}, ctx)
    for i in range(desc['models']):
        run_case({'kind': 'model', 'seed': [desc['seed'], desc['shard'], i, 6]}, ctx)
    for i in range(desc['pca']):
        run_case({'kind': 'pca', 'seed': [desc['seed'], desc['shard'], i, 66]}, ctx)
    if desc['shard'] == 11:
        # thousands of templates with a narrow id type: template id x number of local channels exceeds 16 bits
        run_case({'kind': 'model', 'seed': [desc['seed'], desc['shard'], 2000, 6], 'many_templates': True}, ctx)
    if desc['shard'] == 14:
        # one request of more than 6000 spikes that all have an extracted waveform
        run_case({'kind': 'pca', 'seed': [desc['seed'], desc['shard'], 1000, 66], 'big': True}, ctx)


def run_case(case, ctx):
    globals()['_' + case['kind']](case, ctx)


def dense_ref(data, cols, ch):
    """out[i, j, ...] = data[i, k, ...] with cols[i, k] == ch[j] (unique k), else 0. Also returns mask of
    judged cells (False where a stored row holds the channel twice)."""
    n, k = cols.shape
    out = np.zeros((n, len(ch)) + data.shape[2:], dtype=data.dtype)
    judged = np.ones((n, len(ch)), dtype=bool)
    for i in range(n):
        for j, c in enumerate(ch):
            hits = [kk for kk in range(k) if int(cols[i, kk]) == int(c)]
            if len(hits) == 1:
                out[i, j] = data[i, hits[0]]
            elif len(hits) > 1:
                judged[i, j] = False
    return out, judged


def _triple(case, ctx):
    from phylib.io.model import from_sparse
    rng = np.random.default_rng(case['seed'])
    n = int(rng.integers(0, 7))
    k = int(rng.integers(1, 6))
    nchan = int(rng.integers(k, k + 5))
    wide = case['seed'][-1] % 25 == 3          # a large probe: wide id range and many requested channels
    if wide:
        n, k, nchan = int(rng.integers(2, 6)), int(rng.integers(4, 10)), 384
    if case.get('big'):
        return _big_triple(case, ctx, rng)
    trailing = tuple(rng.integers(1, 4, size=int(rng.integers(0, 3))).tolist())
    dt = ['float32', 'float64', 'int32'][int(rng.integers(0, 3))]
    data = (rng.normal(size=(n, k) + trailing) * 50).astype(dt)
    data[data == 0] = 1
    cols = np.stack([rng.permutation(nchan)[:k] for _ in range(n)]).reshape((n, k)) if n else np.zeros((0, k), int)
    cols = cols.astype(['int32', 'int64', 'uint32'][int(rng.integers(0, 3))])
    if cols.dtype.kind == 'i' and n:
        cols[rng.random(cols.shape) < 0.2] = -1
    nreq = int(rng.integers(1, nchan + 3)) if not wide else int(rng.integers(17, 40))
    ch = rng.permutation(nchan + 3)[:nreq]
    as_list = bool(rng.integers(0, 2))
    discarded = bool(n and (~np.isin(cols, ch)).any())
    permuted = bool((np.diff(ch) < 0).any())
    desc = {'data': data, 'cols': cols, 'channel_ids': ch, 'as_list': as_list}
    ctx.count(1, key=hkey(tuple(case['seed'])), nontrivial=discarded or permuted,
              cell=('triple', dt, cols.dtype.name, 'trail%d' % len(trailing)))
    ctx.sample(desc, every=1999)
    cols0, data0 = cols.copy(), data.copy()
    r = call(from_sparse, data, cols, ch.tolist() if as_list else ch)
    if not r.ok:
        ctx.violation('raised', desc, 'from_sparse raised %r' % r.exc, {'route': 'triple', 'exc': r.exc_name}, tb=r.tb)
        return
    exp, judged = dense_ref(data, cols, ch)
    out = np.asarray(r.value)
    if out.shape != exp.shape:
        ctx.violation('densify_mismatch', desc, 'shape %r != %r' % (out.shape, exp.shape), {'route': 'triple'})
        return
    d = same(out[judged], exp[judged])
    if d:
        ctx.violation('densify_mismatch', desc, d, {'route': 'triple'})
    # history: the same (data, cols) arrays are converted again for other channels; the caller's arrays must
    # not have been altered by the first call
    if not (np.array_equal(cols, cols0) and np.array_equal(data, data0, equal_nan=True)):
        ctx.violation('inputs_modified', desc, 'from_sparse modified the arrays passed by the caller', {'route': 'triple'})
        return
    ch2 = rng.permutation(nchan + 2)[:int(rng.integers(1, nchan + 2))]
    r2 = call(from_sparse, data, cols, ch2)
    desc2 = dict(desc, channel_ids=ch2, second_call=True)
    if not r2.ok:
        ctx.violation('raised', desc2, 'second from_sparse call raised %r' % r2.exc, {'route': 'triple', 'exc': r2.exc_name}, tb=r2.tb)
        return
    exp2, judged2 = dense_ref(data0, cols0, ch2)
    out2 = np.asarray(r2.value)
    if out2.shape != exp2.shape or same(out2[judged2], exp2[judged2]):
        ctx.violation('densify_mismatch', desc2, 'second call on the same arrays with other channels differs from the stored values',
                      {'route': 'triple', 'second_call': True})


def _big_triple(case, ctx, rng):
    # size: more spikes than any plausible internal batch (50000)
    from phylib.io.model import from_sparse
    n, k, nchan = [50001, 70000, 100003, 50000, 100000][case['seed'][1] % 5], 3, 8       # also exact multiples of 50000
    data = rng.normal(size=(n, k)).astype(np.float32)
    data[data == 0] = 1
    cols = np.stack([rng.permutation(nchan)[:k] for _ in range(8)])[rng.integers(0, 8, size=n)].astype(np.int32)
    ch = rng.permutation(nchan)[:5]
    ctx.count(1, key=hkey('big', tuple(case['seed'])), nontrivial=True, cell=('triple_big',))
    r = call(from_sparse, data, cols, ch)
    if not r.ok:
        ctx.violation('raised', {'big': n}, 'from_sparse raised %r on %d spikes' % (r.exc, n), {'route': 'triple', 'big': True}, tb=r.tb)
        return
    exp = np.zeros((n, len(ch)), dtype=data.dtype)
    for j, c in enumerate(ch.tolist()):
        hit = cols == c
        rows = np.nonzero(hit.any(axis=1))[0]
        exp[rows, j] = data[rows, hit[rows].argmax(axis=1)]
    d = same(np.asarray(r.value), exp)
    if d:
        ctx.violation('densify_mismatch', {'big': n, 'seed': case['seed']}, 'from_sparse on %d spikes: %s' % (n, d), {'route': 'triple', 'big': True})


def _model(case, ctx):
    from phylib.io.model import load_model
    rng = np.random.default_rng(case['seed'])
    feat = ['dense', 'sparse', 'sparse_rows'][int(rng.integers(0, 3))]
    opts = dict(features=feat, tfeatures=bool(rng.integers(0, 2)), tfeat_rows=bool(rng.integers(0, 2)), tfeat_pad=bool(rng.integers(0, 2)),
                nc=int(rng.integers(3, 8)), nt=int(rng.integers(2, 6)), ns=int(rng.integers(8, 40)),
                dtype_ind=['int32', 'uint32', 'int64'][int(rng.integers(0, 3))],
                clusters=['same', 'curated'][int(rng.integers(0, 2))],
                spikeless=['none', 'middle', 'first', 'last'][int(rng.integers(0, 4))])        # templates that no spike refers to
    opts.update(dtype_amps=['float64', 'float32'][int(rng.integers(0, 2))],
                dtype_templates=['float32', 'float32', 'float64'][int(rng.integers(0, 3))],
                dtype_feat=['float32', 'float64'][int(rng.integers(0, 2))])
    if feat == 'sparse_rows':
        opts['feat_rows_mode'] = ['subset', 'complete_by_template', 'subset_unsorted'][case['seed'][2] % 3]
    if feat != 'dense' and case['seed'][2] % 3 != 0:
        opts['feat_pad'] = ['random', 'column'][case['seed'][2] % 3 - 1]       # -1 padded column tables (signed tables only)
        if opts['feat_pad'] == 'column':
            opts['nloc'] = 3
    if case['seed'][2] % 4 == 1:
        opts['feat_nan_rows'] = 2               # spikes whose stored values are all NaN
        opts['tfeat_nonfinite'] = 3
    if case['seed'][2] % 5 == 2:
        # sparse templates whose column table is as wide as the feature store (it must not be taken for the features' table)
        opts.update(sparse_templates=True, clusters='same')
        opts['tnloc'] = opts['nc'] if feat == 'dense' else 4
    if case.get('many_templates'):
        opts.update(features='sparse', nt=2100, nc=40, nloc=32, ns=2400, dtype_ids='uint16', clusters='same', spikeless='none', tfeatures=False, feat_pad=None)
        opts.pop('feat_rows_mode', None)
    spec = random_spec(rng, **opts)
    if case.get('many_templates'):
        # (make sure the highest templates own spikes)
        st_ = spec.spike_templates.copy()
        st_[-60:] = np.arange(2040, 2100).astype(st_.dtype)
        spec.spike_templates = st_
        spec.spike_clusters = st_.copy() if spec.spike_clusters is not None else None
    d = scratch_dir('c06_')
    desc = {'seed': case['seed'], 'opts': opts}
    try:
        r = call(load_model, spec.write(d))
        if not r.ok:
            ctx.count(1)
            ctx.violation('raised', desc, 'load_model raised %r' % r.exc, {'route': 'model', 'exc': r.exc_name}, tb=r.tb)
            return
        m = r.value
        try:
            _features(m, spec, desc, ctx, rng, feat)
            if spec.template_features is not None:
                _tfeatures(m, spec, desc, ctx, rng)
        finally:
            call(m.close)
    finally:
        shutil.rmtree(d, ignore_errors=True)


def _features(m, spec, desc, ctx, rng, feat):
    if desc['seed'][2] % 2:
        from gen.poke import poke
        poke(m, ctx)
    ns, nc = spec.n_spikes, spec.n_channels
    F = spec.pc_features                      # (nrows, npcs, nloc)
    npcs, nloc = F.shape[1], F.shape[2]
    rows = spec.pc_feature_spike_ids
    rowpos = {int(s): i for i, s in enumerate(rows.tolist())} if rows is not None else None
    st = spec.spike_templates
    for q in range(4):
        ids = rng.permutation(ns)[:int(rng.integers(1, ns + 1))]
        if q == 0:
            ids = np.sort(ids)
        if q == 3 and rows is None and desc['seed'][2] % 2 == 0:
            # a spike named more than once (a full store is simply indexed with the request): short ascending requests in
            # which as many ids repeat as are skipped, and unordered ones
            ids = rng.integers(0, ns, size=int(rng.integers(2, 7)))
            if desc['seed'][2] % 4 == 0:
                a0 = int(rng.integers(0, max(1, ns - 4)))
                ids = np.array([[a0, a0, a0 + 2], [a0, a0 + 1, a0 + 1, a0 + 3, a0 + 4], [a0, a0 + 2, a0 + 2]][desc['seed'][2] // 4 % 3])
                ids = ids[ids < ns]
            else:
                ids = np.sort(ids) if desc['seed'][2] % 8 == 2 else ids
        k = int(rng.integers(1, min(4, nc) + 1))
        base = rng.permutation(nc)[:k]
        if q == 2:
            # ids that name no channel of the probe (the first one past the last channel, a far one): zero columns
            far_ = [nc, nc + 93, 5000][(desc['seed'][2] + desc['seed'][1]) % 3]        # (rotates with the shard too: independent of the padding rotation)        # (5000: an id far beyond the probe, among a handful of requested ones)
            base = np.r_[base[:2], far_] if desc['seed'][2] % 2 else np.r_[far_, base[:2]]
            k = len(base)
        perms = list(itertools.permutations(base.tolist()))
        for perm in perms[:6]:
            ch = np.array(perm)
            req = {'spike_ids': ids.tolist(), 'channel_ids': ch.tolist(), 'store': feat}
            ctx.count(1, key=hkey(tuple(desc['seed']), q, perm), nontrivial=(perm != tuple(sorted(perm))) or rows is not None,
                      cell=('get_features', feat, 'k%d' % k))
            form = (q + len(perm)) % 3            # ids / channels as arrays or plain lists
            idt = ['int64', 'int32', 'uint32', 'uint64', 'uint16'][(q + len(perm) + k) % 5]        # id arrays of any integer dtype, also read-only
            ids_arg = ids.astype(idt) if ns < 60000 or idt != 'uint16' else ids
            ch_arg = ch.astype(['int64', 'int32', 'uint16', 'uint8'][(q + k) % 4] if ch.max(initial=0) < 256 else ['int64', 'int32', 'uint16'][(q + k) % 3])
            if (q + k) % 2:
                ids_arg.flags.writeable = False
                ch_arg.flags.writeable = False
            r = call(m.get_features, ids_arg if form != 1 else ids.tolist(), ch_arg if form != 2 else ch.tolist())
            f = {'route': 'get_features', 'store': feat}
            if not r.ok:
                ctx.violation('raised', dict(desc, request=req), 'get_features raised %r' % r.exc, dict(f, exc=r.exc_name), tb=r.tb)
                continue
            out = np.asarray(r.value)
            if out.shape != (len(ids), len(ch), npcs):
                ctx.violation('densify_mismatch', dict(desc, request=req), 'shape %r' % (out.shape,), f)
                continue
            bad = None
            for i, s in enumerate(ids.tolist()):
                if rowpos is not None and s not in rowpos:
                    continue          # values are claimed for stored spikes only
                row = rowpos[s] if rowpos is not None else s
                cols = spec.pc_feature_ind[st[s]].astype(np.int64) if spec.pc_feature_ind is not None else np.arange(nloc)
                for j, c in enumerate(ch.tolist()):
                    hit = np.nonzero(cols == c)[0]
                    e = F[row, :, hit[0]] if len(hit) == 1 else np.zeros(npcs, F.dtype)
                    o_, e_ = out[i, j].astype(np.float64), e.astype(np.float64)
                    if not np.array_equal(o_, e_, equal_nan=True):           # (a stored NaN is a stored value: it comes back as NaN)
                        bad = 'spike %d channel %d: %r != expected %r' % (s, c, out[i, j].tolist(), e.tolist())
                        break
                if bad:
                    break
            if bad:
                ctx.violation('densify_mismatch', dict(desc, request=req), 'get_features: ' + bad, f)
            if isinstance(r.value, np.ndarray) and r.value.flags.writeable:
                r.value[...] = 7.5          # the caller's own array: later requests (and F, the stored data) must not change
                ctx.mon('returned_features_modified')
    # history: the caller refills ONE spike-id buffer in place between requests on the same model
    k = int(rng.integers(2, min(6, ns) + 1))
    buf = np.zeros(k, dtype=np.int64)
    ch = np.arange(nc)
    for q in range(3):
        buf[:] = np.sort(rng.permutation(ns)[:k])
        ctx.count(1, key=hkey(tuple(desc['seed']), 'buffer', q), nontrivial=True, cell=('get_features', feat, 'reused_buffer'))
        r = call(m.get_features, buf, ch)
        f = {'route': 'get_features', 'store': feat, 'reused_buffer': True}
        req = {'spike_ids': buf.tolist(), 'channel_ids': ch.tolist(), 'call': q}
        if not r.ok:
            ctx.violation('raised', dict(desc, request=req), 'get_features raised %r' % r.exc, dict(f, exc=r.exc_name), tb=r.tb)
            break
        out = np.asarray(r.value)
        for i, s in enumerate(buf.tolist()):
            if rowpos is not None and s not in rowpos:
                continue
            row = rowpos[s] if rowpos is not None else s
            cols = spec.pc_feature_ind[st[s]].astype(np.int64) if spec.pc_feature_ind is not None else np.arange(nloc)
            e = np.zeros((nc, npcs))
            for kk, c in enumerate(cols.tolist()):
                if 0 <= c < nc and (cols == c).sum() == 1:
                    e[c] = F[row, :, kk]
            o_ = out[i].astype(np.float64) if out.shape == (k, nc, npcs) else None
            if o_ is None or not np.array_equal(o_, e, equal_nan=True):
                ctx.violation('densify_mismatch', dict(desc, request=req),
                              'get_features on a refilled id buffer (call %d): spike %d differs from the stored values' % (q, s), f)
                break
    ctx.sample({'spec': spec.describe()}, every=23)


def _tfeatures(m, spec, desc, ctx, rng):
    ns, nt = spec.n_spikes, spec.n_templates
    TF = spec.template_features
    rows = spec.template_feature_spike_ids
    rowpos = {int(s): i for i, s in enumerate(rows.tolist())} if rows is not None else None
    for q in range(3):
        if rows is not None:
            ids = np.sort(rng.permutation(rows)[:int(rng.integers(1, len(rows) + 1))])
        else:
            ids = rng.permutation(ns)[:int(rng.integers(1, ns + 1))]
        req = {'spike_ids': ids.tolist(), 'rows': rows is not None}
        ctx.count(1, key=hkey(tuple(desc['seed']), 'tf', q), nontrivial=True, cell=('get_template_features', 'rows%d' % (rows is not None)))
        r = call(m.get_template_features, ids.astype(['int64', 'uint32', 'int32', 'uint64'][q % 4]))
        f = {'route': 'get_template_features', 'rows': rows is not None}
        if not r.ok:
            ctx.violation('raised', dict(desc, request=req), 'get_template_features raised %r' % r.exc, dict(f, exc=r.exc_name), tb=r.tb)
            continue
        out = np.asarray(r.value)
        if out.shape != (len(ids), nt):
            ctx.violation('densify_mismatch', dict(desc, request=req), 'shape %r != %r' % (out.shape, (len(ids), nt)), f)
            continue
        for i, s in enumerate(ids.tolist()):
            row = rowpos[s] if rowpos is not None else s
            cols = spec.template_feature_ind[spec.spike_templates[s]].astype(np.int64)
            e = np.zeros(nt, TF.dtype)
            for kk, u in enumerate(cols.tolist()):
                if 0 <= u < nt and (cols == u).sum() == 1:
                    e[u] = TF[row, kk]           # (-1 = unused slot: contributes nothing)
            if not np.array_equal(out[i], e, equal_nan=True):
                ctx.violation('densify_mismatch', dict(desc, request=req),
                              'get_template_features: spike %d: %r != expected %r' % (s, out[i].tolist(), e.tolist()), f)
                break


def _pca(case, ctx):
    from phylib.io.model import load_model
    rng = np.random.default_rng(case['seed'])
    n_samples = int(rng.integers(200, 500)) if not case.get('big') else 9000
    spec = random_spec(rng, raw=['int16', 'float32'][int(rng.integers(0, 2))], n_samples=n_samples, ns=int(rng.integers(30, 70)) if not case.get('big') else 6200,
                       nt=int(rng.integers(2, 4)), nc=int(rng.integers(3, 6)), nsw=int(rng.integers(4, 7)), rate=100.)
    if case['seed'][2] % 2:
        spec.notes['n_closest_channels'] = 3        # the store keeps 3 channels per spike: spikes of different templates differ in their channels
    # smooth-ish raw data with structure so that leading eigenvalues are separated
    t = np.arange(n_samples)[:, None]
    R = (200 * np.sin(t / 3.1 + np.arange(spec.n_channels_dat)[None, :]) + 60 * np.cos(t / 1.3) +
         rng.normal(0, 25, size=(n_samples, spec.n_channels_dat)))
    spec.raw = R.astype(spec.raw.dtype)
    d = scratch_dir('c06_')
    desc = {'seed': case['seed'], 'spec': spec.describe()}
    f = {'route': 'pca'}
    ctx.count(1, key=hkey(tuple(case['seed']), 'pca'), nontrivial=True, cell=('pca',))
    try:
        r = call(load_model, spec.write(d))
        if not r.ok:
            ctx.violation('raised', desc, 'load_model raised %r' % r.exc, dict(f, exc=r.exc_name), tb=r.tb)
            return
        m = r.value
        try:
            factor = [1.0, 0.5][int(rng.integers(0, 2))]
            # (a small store: requests then mix spikes with and without an extracted waveform)
            if case['seed'][2] % 4 in (1, 2):
                # history: an earlier, smaller extraction on the same model (other spikes, one channel); the store is then rebuilt
                np.random.seed(case['seed'][2])
                call(m.save_spikes_subset_waveforms, max_n_spikes_per_template=3, max_n_channels=1, sample2unit=1.)
                ctx.cell('pca', 'extracted_twice')
            rs = call(m.save_spikes_subset_waveforms, max_n_spikes_per_template=[40, 12, 8][case['seed'][2] % 3] if not case.get('big') else 7000, max_n_channels=2, sample2unit=factor)
            if not rs.ok or m.spike_waveforms is None:
                ctx.violation('raised', desc, 'building the waveform store failed: %r' % (rs.exc,), dict(f, exc=rs.exc_name), tb=rs.tb)
                return
            # (what the extraction wrote is the store; the model's view of it must be the same)
            import os
            sid = np.load(os.path.join(d, '_phy_spikes_subset.spikes.npy'))
            sch = np.load(os.path.join(d, '_phy_spikes_subset.channels.npy'))
            if not (np.array_equal(sid, np.asarray(m.spike_waveforms.spike_ids)) and np.array_equal(sch, np.asarray(m.spike_waveforms.spike_channels))):
                ctx.violation('pca_mismatch', desc, 'after the extraction the model lists other stored spikes / channels than the files it just wrote', f)
                return
            A = spec.traces_truth()
            ns = spec.n_spikes
            ids = np.sort(rng.permutation(ns)[:int(rng.integers(ns // 2, ns + 1))]) if not case.get('big') else np.arange(ns)
            ch = rng.permutation(spec.n_channels)[:int(rng.integers(1, spec.n_channels + 1))]
            rr = call(m.get_features, ids, ch)
            if not rr.ok:
                ctx.violation('raised', desc, 'get_features (PCA fallback) raised %r' % rr.exc, dict(f, exc=rr.exc_name), tb=rr.tb)
                return
            out = np.asarray(rr.value)
            if out.shape != (len(ids), len(ch), 3):
                ctx.violation('pca_mismatch', desc, 'shape %r' % (out.shape,), f)
                return
            # reference waveforms of the stored spikes among the requested ones, from the raw bytes
            pos = {int(s): i for i, s in enumerate(sid.tolist())}
            have = [s for s in ids.tolist() if s in pos]
            if len(have) < 8:
                ctx.note('pca_too_few_stored_spikes')
                return
            nsw = spec.nsw
            W = np.zeros((len(have), nsw, len(ch)))
            for a, s in enumerate(have):
                stored = set(c for c in sch[pos[s]].tolist() if c != -1)
                for j, c in enumerate(ch.tolist()):
                    if c in stored:
                        W[a, :, j] = window(A, spec.spike_samples[s], nsw, [c])[:, 0].astype(np.float64) * factor
            judged = 0
            pos_in_req = {int(s): i_ for i_, s in enumerate(ids.tolist())}
            for j in range(len(ch)):
                X = W[:, :, j]
                cov = np.cov(X, rowvar=False)
                vals, vecs = np.linalg.eigh(cov)
                order = np.argsort(vals)[::-1]
                vals, vecs = vals[order], vecs[:, order]
                scale = max(vals[0], 1e-12)
                for comp in range(3):
                    gaps = [abs(vals[comp] - vals[o]) for o in (comp - 1, comp + 1) if 0 <= o < len(vals)]
                    if vals[0] <= 1e-9 or min(gaps) / scale < 1e-6:
                        continue
                    e = X @ vecs[:, comp].astype(np.float32).astype(np.float64)
                    got = out[[pos_in_req[s] for s in have], j, comp].astype(np.float64)
                    tol = 1e-4 * max(1.0, np.abs(e).max())
                    judged += 1
                    if not (np.allclose(got, e, atol=tol, rtol=1e-4) or np.allclose(got, -e, atol=tol, rtol=1e-4)):
                        ctx.violation('pca_mismatch', desc, 'channel %d component %d: features %r..., reference +/-%r...' % (
                            ch[j], comp, got[:4].tolist(), e[:4].tolist()), f)
                        return
            # a request in which exactly two spikes have a waveform: the leading component is the direction of their difference
            if len(have) >= 2:
                two = np.array(sorted(have[:2]))
                r2 = call(m.get_features, two, ch)
                if r2.ok and np.asarray(r2.value).shape == (2, len(ch), 3):
                    o2 = np.asarray(r2.value)
                    idx2 = [have.index(int(s)) for s in two.tolist()]
                    for j in range(len(ch)):
                        X2 = W[idx2, :, j]
                        dv = X2[1] - X2[0]
                        if np.linalg.norm(dv) < 1e-6 * max(1.0, np.abs(X2).max()):
                            continue
                        v = (dv / np.linalg.norm(dv)).astype(np.float32).astype(np.float64)
                        e2 = X2 @ v
                        tol2 = 1e-4 * max(1.0, np.abs(e2).max())
                        ctx.mon('pca.two_spike_requests')
                        if not (np.allclose(o2[:, j, 0], e2, atol=tol2, rtol=1e-4) or np.allclose(o2[:, j, 0], -e2, atol=tol2, rtol=1e-4)):
                            ctx.violation('pca_mismatch', desc, 'request of two stored spikes, channel %d: leading component %r, reference +/-%r' % (
                                ch[j], o2[:, j, 0].tolist(), e2.tolist()), dict(f, two_spikes=True))
                            return
                elif not r2.ok:
                    ctx.violation('raised', desc, 'get_features on two stored spikes raised %r' % r2.exc, dict(f, exc=r2.exc_name), tb=r2.tb)
                    return
            # a request made only of stored spikes, in no particular order: every spike gets the row that the same set gets
            # when it is asked for in increasing order
            if len(have) >= 4:
                asc = np.array(sorted(have[:12]))
                shuf = asc[rng.permutation(len(asc))]
                ra, rs_ = call(m.get_features, asc, ch), call(m.get_features, shuf, ch)
                ctx.mon('pca.unordered_requests')
                if ra.ok and rs_.ok and np.asarray(ra.value).shape == np.asarray(rs_.value).shape == (len(asc), len(ch), 3):
                    oa, os_ = np.asarray(ra.value, dtype=np.float64), np.asarray(rs_.value, dtype=np.float64)
                    back = np.array([int(np.nonzero(shuf == s_)[0][0]) for s_ in asc.tolist()])
                    for j in range(len(ch)):
                        for comp in range(3):
                            a_, b_ = oa[:, j, comp], os_[back, j, comp]
                            tol_ = 1e-5 * max(1.0, np.abs(a_).max())
                            if not (np.allclose(a_, b_, atol=tol_, rtol=1e-5) or np.allclose(a_, -b_, atol=tol_, rtol=1e-5)):
                                ctx.violation('pca_mismatch', dict(desc, request=shuf.tolist()), 'stored spikes requested as %r: channel %d component %d gives %r, the same '
                                              'spikes in increasing order give %r' % (shuf.tolist(), ch[j], comp, b_[:5].tolist(), a_[:5].tolist()), dict(f, unordered=True))
                                return
                elif not (ra.ok and rs_.ok):
                    ctx.violation('raised', desc, 'get_features on stored spikes in another order raised %r' % (ra.exc or rs_.exc), dict(f, unordered=True), tb=ra.tb or rs_.tb)
                    return
            # spikes not in the store must come back as zeros
            for i, s in enumerate(ids.tolist()):
                if s not in pos and np.any(out[i] != 0):
                    ctx.violation('pca_mismatch', desc, 'spike %d is not in the store but has non-zero features' % s, f)
                    return
            ctx.mon('pca.components_judged', judged)
        finally:
            call(m.close)
    finally:
        shutil.rmtree(d, ignore_errors=True)
