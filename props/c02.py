"""C02 - Lazy reader expressions commute with eager NumPy evaluation."""
import os
import shutil

import numpy as np

from gen import layouts as L
from vmon.core import call, same, hkey, scratch_dir, ulp_tol
from vmon import monitors

ID = 'C02'
LEVEL = 'exploration'
MONITORS = ('M1', 'M2', 'M6')
ANCHORS = ['phylib.io.traces:BaseEphysReader._append_op', 'phylib.io.traces:BaseEphysReader._apply_ops',
           'phylib.io.traces:_apply_op', 'phylib.io.traces:BaseEphysReader.__getitem__',
           'phylib.io.traces:BaseEphysReader.__rpow__', 'phylib.io.traces:BaseEphysReader.__rsub__',
           'phylib.io.traces:BaseEphysReader.__rtruediv__', 'phylib.io.traces:BaseEphysReader.__rfloordiv__',
           'phylib.io.traces:BaseEphysReader.__neg__', 'phylib.io.traces:BaseEphysReader.__pos__']
RULE = ('A program is a sequence of operators from {pos, neg, add, radd, sub, rsub, mul, rmul, truediv, '
        'rtruediv, floordiv, rfloordiv, pow, rpow} x scalars {2, 3, -3, -2, -4, -1, 0.5, 2.0, -1.5, 1.1 and the neutral elements 0, 1, 0.0, 1.0 (Python int/float); '
        'np.float32(2), np.int16(3), np.float64(1), np.int64(0) on the right} and whole-recording column selections (slice, list, '
        'permutation, negative / reversed forms). It is built twice with the Python operators, on the reader and on the loaded '
        'array, then indexed with 4 row items; values+dtype must agree (NaN-aware) or both must raise '
        'the same exception type. EVERY program of depth <= 2 (thorough: <= 3 on int16/array) and every depth-4 program selection / scalar op / selection / selection on the '
        'array backend, random programs of depth 3-6 on flat multi-file / npy / cbin / array readers of '
        'all dtypes, and random derivation trees (parent, children, siblings; every node re-evaluated '
        'after each new derivation, in shuffled order, with refused out-of-range accesses in between). non-trivial = distinct programs containing a '
        'reflected operator, / or // on an integer dtype, a column selection not in last position; or a '
        'tree with >= 2 siblings.')
RULE += ' Added classes: NumPy-typed scalar operands (np.float32 / np.int16 / np.float64 / np.int64); expression trees in which refused accesses (row out of range, step != 1, bad channel) are interleaved with reads of the same readers.'
RULE += ' Round 5: boolean masks (full width and width 2) and runs of negative indices among the channel selections.'
RULE += ' Round 6: integer channel selections (the channel axis is dropped) and empty ones; every one-operator program, and every two-operator program starting with a selection, on the multi-file / npy / compressed backends.'
RULE += ' Round 7: np.float64(g) on the left of every reflected operator (only where the expression is integer or double at that point: NumPy itself strips the type before the reader sees it); a 3000-row recording read with index arrays of > 1000 rows that agree in their first and last entries, through a reader and its relatives. Floating results are judged to a few units of the coarsest precision met along the expression.'
RULE += ' Round 8: selector array objects shared between programs (negative entries, two widths) and required intact afterwards; the empty row range 3:3 where the root reader accepts it; tolerances from the coarsest precision along the expression.'
RULE += ' Round 9: scalars -2, -4, -1 and 1.1.'
RULE += ' Round 10: h = g; h op= c for the six augmented assignments (g must keep its values); 70000-row recordings read through expressions that keep one channel or reorder channels.'
RULE += ' Round 11: half-precision recordings (array / .npy / flat) with every one-operator program and a grid of two-operator programs; a 12-file recording read through a reader and its relatives with far-apart row lists.'
RULE += ' Round 12: a boolean channel mask given as a Python list.'
EXHAUSTIVE = {'quick': True, 'thorough': True}
EXHAUSTIVE_SCOPE = {'quick': 'all programs of depth <= 2 on int16 and float32 (array backend)',
                    'thorough': 'depth <= 2 on every dtype, depth 3 on int16 (array backend)'}
FLOORS = {'quick': {'evaluations': 50000, 'distinct_nontrivial': 5000, 'monitors': {'M1.checked': 50000}},
          'thorough': {'evaluations': 1000000, 'distinct_nontrivial': 100000,
                       'monitors': {'M1.checked': 1000000}}}
ASSUMPTIONS = ['NumPy scalars on the left of a reader are excluded (NumPy scalar dispatch decides them)',
               'attributes (dtype, n_channels) of derived readers are not claimed by the statement']
NSHARDS = 16
NC = 5

UNARY = ['pos', 'neg']
BINARY = ['add', 'radd', 'sub', 'rsub', 'mul', 'rmul', 'truediv', 'rtruediv', 'floordiv', 'rfloordiv',
          'pow', 'rpow']
PYSCAL = [2, 3, -3, 0.5, 2.0, -1.5, 0, 1, 0.0, 1.0, -2, -4, -1, 1.1]
NPSCAL = [('f4', 2), ('i2', 3), ('f8', 1), ('i8', 0)]
COLS = [('slice', [1, None]), ('list', [2, 0]), ('perm', [1, 2, 0]),
        # width-relative forms: they mean something else once an earlier selection has narrowed the recording
        ('slice', [-2, None]), ('slice', [None, None, -1]), ('list', [-1, 0]),
        # boolean masks (full width; width 2, valid only after a narrowing selection), runs of negative indices
        ('mask', [False, True, True, False, True]), ('mask', [False, True]), ('list', [-2, -1]),
        # a boolean mask written as a plain Python list
        ('masklist', [True, False, True, True, False]),
        # a single channel as an integer (the result loses its channel axis), an empty selection
        ('int', 2), ('int', -1), ('list', []),
        # an index ARRAY with a negative entry; the harness hands out ONE array object per selector, as a caller who keeps its
        # channel selection in a variable does
        ('arr', [-1, 0]), ('arr', [1, -2])]


def alphabet():
    ops = [[u, None] for u in UNARY]
    for b in BINARY:
        for s in PYSCAL:
            ops.append([b, s])
        if not b.startswith('r'):
            for s in NPSCAL:
                ops.append([b, {'np': s[0], 'v': s[1]}])
        else:
            # a NumPy double on the LEFT of the operator (np.float64(g) * reader): the scalar's own operator must hand over
            # to the reader's reflected method
            ops.append([b, {'np': 'f8', 'v': 1.5}])
    for c in COLS:
        ops.append(['cols', {'c': c[0], 'v': c[1]}])
    return ops


_ARR_CACHE = {}


def arrays_intact():
    """The selector arrays the harness keeps (and re-uses) still hold what they were created with."""
    return all(a.tolist() == list(k) for k, a in _ARR_CACHE.items())


def arg_value(arg):
    if isinstance(arg, dict) and 'np' in arg:
        return np.dtype(arg['np']).type(arg['v'])
    if isinstance(arg, dict) and 'c' in arg:
        if arg['c'] == 'slice':
            return slice(*arg['v'])
        if arg['c'] == 'perm':
            return np.array(arg['v'])
        if arg['c'] == 'arr':
            key = tuple(arg['v'])
            if key not in _ARR_CACHE:
                _ARR_CACHE[key] = np.array(arg['v'])
            return _ARR_CACHE[key]
        if arg['c'] == 'mask':
            return np.array(arg['v'], dtype=bool)
        if arg['c'] == 'masklist':
            return [bool(x) for x in arg['v']]
        if arg['c'] == 'int':
            return int(arg['v'])
        return list(arg['v'])
    return arg


def apply_op(x, op, arg):
    a = arg_value(arg)
    if op == 'pos':
        return +x
    if op == 'neg':
        return -x
    if op == 'cols':
        return x[:, a]
    if op == 'add':
        return x + a
    if op == 'radd':
        return a + x
    if op == 'sub':
        return x - a
    if op == 'rsub':
        return a - x
    if op == 'mul':
        return x * a
    if op == 'rmul':
        return a * x
    if op == 'truediv':
        return x / a
    if op == 'rtruediv':
        return a / x
    if op == 'floordiv':
        return x // a
    if op == 'rfloordiv':
        return a // x
    if op == 'pow':
        return x ** a
    if op == 'rpow':
        return a ** x
    raise KeyError(op)


def make_array(n, dtype):
    A = L.unique_cells(n, NC, np.dtype(dtype))
    dt = A.dtype
    A[0, 0] = 0
    A[1 % n, 0] = 1
    if dt.kind != 'u':
        A[2 % n, 1] = -1
    if dt.kind in 'iu':
        A[-1, -1] = np.iinfo(dt).max
        A[-1, 0] = np.iinfo(dt).min
    else:
        A[-1, -1] = 1e4
    return A


def plan(tier, seed):
    return [{'shard': i, 'n': NSHARDS, 'seed': seed, 'tier': tier} for i in range(NSHARDS)]


ROW_ITEMS = [slice(None), 3, slice(-4, -1), [0, 2, 5], slice(3, 3)]        # (an empty range keeps the expression's dtype and width)


class Readers(object):
    """Lazily opened readers for one shard."""
    def __init__(self):
        self.d = scratch_dir('c02_')
        self.cache = {}

    def get(self, backend, dtype):
        from phylib.io.traces import get_ephys_reader
        key = (backend, dtype)
        if key in self.cache:
            return self.cache[key]
        n = 7
        A = make_array(n, dtype)
        stem = '%s_%s' % (backend, dtype)
        if backend == 'array':
            rd = get_ephys_reader(A.copy(), sample_rate=100.)
        elif backend == 'flat':
            paths = L.write_flat(self.d, A, [2, 1, 4], offset=7, ext='.bin', stem=stem)
            rd = get_ephys_reader(paths, sample_rate=100., dtype=A.dtype, n_channels=NC, offset=7)
        elif backend == 'npy':
            rd = get_ephys_reader(L.write_npy(self.d, A, stem=stem), sample_rate=100.)
        else:
            p = L.write_cbin(self.d, A, 100., 3, stem=stem, do_time_diff=A.dtype.kind != 'f')
            rd = get_ephys_reader(L.open_cbin(p, 2))
        monitors.CURRENT.readers.register(rd, lambda A=A: A, allow_list=backend != 'cbin', label=backend)
        self.cache[key] = (rd, A)
        return rd, A

    def close(self):
        shutil.rmtree(self.d, ignore_errors=True)


_READERS = None


def readers():
    global _READERS
    if _READERS is None:
        _READERS = Readers()
    return _READERS


def run_shard(desc, ctx):
    tier, sh, ns = desc['tier'], desc['shard'], desc['n']
    alpha = alphabet()
    idx = 0
    dts = ['int16', 'float32'] if tier == 'quick' else ['int16', 'uint16', 'int32', 'float32', 'float64']
    for dt in dts:
        progs = [[a] for a in alpha] + [[a, b] for a in alpha for b in alpha]
        for prog in progs:
            idx += 1
            if idx % ns == sh:
                run_case({'kind': 'program', 'backend': 'array', 'dtype': dt, 'program': prog,
                          'rows': 'std'}, ctx)
    # every one-operator program, and every two-operator program starting with a channel selection, on the other backends
    # (multi-file flat, npy, compressed) as well
    colops = [a for a in alpha if a[0] == 'cols']
    for be in ('flat', 'npy', 'cbin'):
        for dt in ('int16', 'float32'):
            for prog in [[a] for a in alpha] + ([[c, a] for c in colops for a in alpha] if be == 'flat' else []):
                idx += 1
                if idx % ns == sh:
                    run_case({'kind': 'program', 'backend': be, 'dtype': dt, 'program': prog, 'rows': 'std'}, ctx)
    # half-precision recordings (in memory / .npy / flat): every one-operator program, and two-operator programs whose second
    # operator is a scalar one (NumPy rounds every intermediate result to half precision; a float32 scalar widens the result)
    scal = [a for a in alpha if a[0] not in ('cols', 'pos', 'neg')]
    for be in ('array', 'npy', 'flat'):
        for prog in [[a] for a in alpha] + [[a, b] for a in scal[::3] for b in scal[1::5]]:
            idx += 1
            if idx % ns == sh:
                run_case({'kind': 'program', 'backend': be, 'dtype': 'float16', 'program': prog, 'rows': 'std'}, ctx)
    # long row-index arrays (> 1000 entries) that agree in their first and last entries, read one after the other through
    # a reader and its relatives
    if sh < 4:
        run_case({'kind': 'big_index', 'backend': ['flat', 'cbin', 'array', 'npy'][sh], 'seed': [desc['seed'], sh]}, ctx)
    # column-heavy programs of depth 4: selection, scalar operator, two selections in a row (all forms)
    for x in colops:
        for mid in (['mul', 2], ['add', 0.5], ['neg', None]):
            for y in colops:
                for z in colops:
                    idx += 1
                    if idx % ns == sh:
                        run_case({'kind': 'program', 'backend': ['array', 'flat'][idx % 2], 'dtype': ['int16', 'float32'][idx % 3 % 2],
                                  'program': [x, mid, y, z], 'rows': [slice(-4, -1), 3]}, ctx)
    if tier == 'thorough':
        for a in alpha:
            for b in alpha:
                for c in alpha:
                    idx += 1
                    if idx % ns == sh:
                        run_case({'kind': 'program', 'backend': 'array', 'dtype': 'int16',
                                  'program': [a, b, c], 'rows': [slice(-4, -1)]}, ctx)
    rng = np.random.default_rng([desc['seed'], sh, 2])
    nrand = (5000 if tier == 'quick' else 200000) // ns
    all_dt = ['int16', 'uint16', 'int32', 'float32', 'float64']
    for _ in range(nrand):
        depth = int(rng.integers(3, 7 if tier == 'thorough' else 6))
        prog = [alpha[int(rng.integers(0, len(alpha)))] for _ in range(depth)]
        be = ['array', 'flat', 'npy', 'cbin'][int(rng.integers(0, 4))]
        dt = all_dt[int(rng.integers(0, 5))]
        if be == 'cbin' and dt == 'float64':
            dt = 'float32'
        run_case({'kind': 'program', 'backend': be, 'dtype': dt, 'program': prog, 'rows': 'std'}, ctx)
    ntree = (500 if tier == 'quick' else 20000) // ns + 1
    for _ in range(ntree):
        k = int(rng.integers(3, 9))
        nodes = []
        for j in range(k):
            parent = int(rng.integers(-1, j)) if j else -1
            nodes.append([parent, alpha[int(rng.integers(0, len(alpha)))]])
        be = ['array', 'flat', 'npy', 'cbin'][int(rng.integers(0, 4))]
        dt = all_dt[int(rng.integers(0, 4))]
        run_case({'kind': 'tree', 'backend': be, 'dtype': dt, 'nodes': nodes,
                  'shuffle': int(rng.integers(0, 1 << 30))}, ctx)


def prog_features(prog, dtype):
    refl = any(op.startswith('r') and op != 'rows' for op, _ in prog)
    intdiv = np.dtype(dtype).kind in 'iu' and any(op in ('truediv', 'floordiv', 'rtruediv', 'rfloordiv')
                                                   for op, _ in prog)
    cols_mid = any(op == 'cols' for op, _ in prog[:-1])
    return refl, intdiv, cols_mid


def eval_chain(x, prog):
    for op, arg in prog:
        x = apply_op(x, op, arg)
    return x


def _rowwise(A, prog, rows, got, tol, ctx):
    """NumPy's own result for one expression can differ in the last unit between the whole array and a few of its rows
    (vectorised and scalar inner loops), and a later floor division turns that unit into a whole step. Eager evaluation of
    the same expression on the selected rows is eager NumPy evaluation too: returns None if `got` equals it, else a message."""
    try:
        sel = A[[rows]] if isinstance(rows, (int, np.integer)) else A[rows]
        with np.errstate(all='ignore'):
            e2 = eval_chain(sel, prog)
    except Exception as e:
        return 'row-wise evaluation failed: %r' % e
    d2 = same(got, e2, rtol=tol)
    if d2 is None:
        ctx.mon('matched_rowwise_eager_evaluation')
    return d2


def left_np_scalar_out_of_domain(prog, dtype):
    """np.float64(g) <op> reader: NumPy itself turns the scalar into a Python float before the reader's reflected method
    sees it, so on single-precision samples the lazy result is float32 where eager NumPy gives float64. That is NumPy's
    dispatch, not phylib's: not generated for float32 / float16 recordings (integer and float64 ones are unaffected)."""
    x = np.ones((1, NC), dtype=np.dtype(dtype))
    with np.errstate(all='ignore'):
        for op, arg in prog:
            if op.startswith('r') and isinstance(arg, dict) and 'np' in arg and x.dtype.kind == 'f' and x.dtype.itemsize < 8:
                return True          # (the expression is in single precision at this point)
            try:
                x = apply_op(x, op, arg)
            except Exception:
                return False
            if not isinstance(x, np.ndarray):
                return False
    return False


def valid_cols(prog):
    """Column selections must stay inside the current width (the harness only builds valid ones); judged by applying
    them to a dummy row. An integer selection drops the channel axis: no further selection is valid after it."""
    x = np.zeros((1, NC))
    for op, arg in prog:
        if op == 'cols':
            if x.ndim != 2:
                return False
            try:
                x = x[:, arg_value(arg)]
            except (IndexError, TypeError, ValueError):
                return False
    return True


def _big_index(case, ctx):
    from phylib.io.traces import get_ephys_reader
    rng = np.random.default_rng(case['seed'])
    n = 3000
    A = L.unique_cells(n, 2, np.dtype('int32'))
    d = scratch_dir('c02b_')
    try:
        be = case['backend']
        if be == 'flat':
            rd = get_ephys_reader(L.write_flat(d, A, [1200, 1800], ext='.bin'), sample_rate=100., dtype=A.dtype, n_channels=2)
        elif be == 'cbin':
            rd = get_ephys_reader(L.open_cbin(L.write_cbin(d, A, 100., 700), 2))
        elif be == 'npy':
            rd = get_ephys_reader(L.write_npy(d, A), sample_rate=100.)
        else:
            rd = get_ephys_reader(A.copy(), sample_rate=100.)
        monitors.CURRENT.readers.register(rd, lambda A=A: A, allow_list=be != 'cbin', label=be)
        if be == 'cbin':
            return          # (index arrays are not supported by the compressed backend)
        head, tail = np.array([0, 1, 2]), np.array([n - 3, n - 2, n - 1])
        mids = [np.sort(rng.permutation(np.arange(3, n - 3))[:1200]) for _ in range(3)]
        idxs = [np.r_[head, m, tail] for m in mids]
        relatives = [('reader', rd, A), ('reader * 2', rd * 2, A * 2), ('reader[:, ::-1]', rd[:, ::-1], A[:, ::-1]), ('-reader', -rd, -A)]
        for rep in range(2):
            for j, ix in enumerate(idxs):
                name, r_, E = relatives[(j + rep) % len(relatives)]
                ctx.count(1, key=hkey('bigidx', be, j, rep), nontrivial=True, cell=(be, 'int32', 'big_index'))
                rr = call(lambda: r_[ix])
                if not rr.ok or same(rr.value, E[ix]):
                    ctx.violation('value_mismatch' if rr.ok else 'index_raised', {'kind': 'big_index', 'backend': be, 'seed': case['seed'], 'read': [j, rep]},
                                  '(%s)[index array of %d rows, read no. %d]: %s' % (name, len(ix), 3 * rep + j, rr.exc if not rr.ok else same(rr.value, E[ix])),
                                  {'backend': be, 'big_index': True}, tb=rr.tb)
                    return
        # augmented assignment on a second name of a derived reader (h = g; h *= c): h is a new expression, g keeps its own
        import operator
        for nm, iop, c in (('+=', operator.iadd, 3), ('-=', operator.isub, 3), ('*=', operator.imul, 2.5), ('/=', operator.itruediv, 2),
                           ('//=', operator.ifloordiv, 2), ('**=', operator.ipow, 2)):
            g = rd * 3
            Eg = A * 3
            ctx.count(1, key=hkey('iop', be, nm), nontrivial=True, cell=(be, 'int32', 'augmented_assignment'))
            rh = call(lambda: iop(g, c))
            Eh = getattr(operator, iop.__name__[1:])(Eg, c)        # (h op= c on a reader means h = h op c)
            rows_ = slice(5, 40)
            rg = call(lambda: g[rows_])
            if not rh.ok or not rg.ok or same(rg.value, Eg[rows_]) or not call(lambda: rh.value[rows_]).ok or same(rh.value[rows_], Eh[rows_]):
                ctx.violation('interference', {'kind': 'big_index', 'backend': be, 'seed': case['seed'], 'iop': nm},
                              'g = reader * 3; h = g; h %s %r: g[5:40] %s, h[5:40] %s' % (
                                  nm, c, (rg.exc if not rg.ok else same(rg.value, Eg[rows_])) or 'ok',
                                  (rh.exc if not rh.ok else (same(rh.value[rows_], Eh[rows_]) if call(lambda: rh.value[rows_]).ok else 'read raised')) or 'ok'),
                              {'backend': be, 'augmented_assignment': True}, tb=rh.tb or rg.tb)
                return
        # a recording of 12 files: row lists that touch only two or three files, far apart, through a reader and its relatives
        if be == 'flat':
            A3 = L.unique_cells(60, 2, np.dtype('int32'))
            os.makedirs(os.path.join(d, 'many'))
            rd3 = get_ephys_reader(L.write_flat(os.path.join(d, 'many'), A3, [5] * 12, ext='.bin'), sample_rate=100., dtype=A3.dtype, n_channels=2)
            for name, r_, E in (('reader', rd3, A3), ('reader * 2', rd3 * 2, A3 * 2), ('reader[:, ::-1] - 1', rd3[:, ::-1] - 1, A3[:, ::-1] - 1)):
                for ix in ([7, 42], [3, 58], [12, 44, 59], np.array([0, 41, 47]), [9, 10, 55]):
                    ctx.count(1, key=hkey('many', name, repr(ix)), nontrivial=True, cell=(be, 'int32', 'many_files'))
                    rr = call(lambda: r_[ix])
                    if not rr.ok or same(rr.value, E[ix]):
                        ctx.violation('value_mismatch' if rr.ok else 'index_raised', {'kind': 'big_index', 'backend': be, 'seed': case['seed'], 'many_files': name},
                                      '12 files of 5 rows, (%s)[%r]: %s' % (name, ix, rr.exc if not rr.ok else same(rr.value, E[ix])), {'backend': be, 'many_files': True}, tb=rr.tb)
                        return
        # reads of more than 65536 rows through expressions, also ones that keep a single channel (1-D results)
        if be in ('flat', 'array'):
            n2 = 70000
            A2 = L.unique_cells(n2, 2, np.dtype('int32'))
            if be == 'flat':
                os.makedirs(os.path.join(d, 'long'))
                rd2 = get_ephys_reader(L.write_flat(os.path.join(d, 'long'), A2, [30000, 40000], ext='.bin'), sample_rate=100., dtype=A2.dtype, n_channels=2)
            else:
                rd2 = get_ephys_reader(A2.copy(), sample_rate=100.)
            for name, r_, E in (('(reader * 2)[:, 1]', (rd2 * 2)[:, 1], (A2 * 2)[:, 1]), ('reader[:, 1] / 4', rd2[:, 1] / 4, A2[:, 1] / 4),
                                ('(reader - 1)[:, [1, 0]]', (rd2 - 1)[:, [1, 0]], (A2 - 1)[:, [1, 0]])):
                for rows_ in (slice(0, n2), slice(100, 66000)):
                    ctx.count(1, key=hkey('long', be, name, rows_.start), nontrivial=True, cell=(be, 'int32', 'long_read'))
                    rr = call(lambda: r_[rows_])
                    if not rr.ok or same(rr.value, E[rows_]):
                        ctx.violation('value_mismatch' if rr.ok else 'index_raised', {'kind': 'big_index', 'backend': be, 'seed': case['seed'], 'long': name},
                                      '%s[%d:%d]: %s' % (name, rows_.start, rows_.stop, rr.exc if not rr.ok else same(rr.value, E[rows_])),
                                      {'backend': be, 'long_read': True}, tb=rr.tb)
                        return
    finally:
        shutil.rmtree(d, ignore_errors=True)


def run_case(case, ctx):
    with np.errstate(all='ignore'):
        _run_case(case, ctx)
    if not arrays_intact():
        ctx.violation('inputs_modified', case, 'a channel-selector array kept by the caller was modified: %r' % {k: a.tolist() for k, a in _ARR_CACHE.items()}, {'backend': case.get('backend')})
        _ARR_CACHE.clear()


def _run_case(case, ctx):
    if True:
        if case['kind'] == 'big_index':
            _big_index(case, ctx)
        elif case['kind'] == 'program':
            _program(case, ctx)
        else:
            _tree(case, ctx)


def _rows(case, lists):
    rows = ROW_ITEMS if case['rows'] == 'std' else case['rows']
    return [r for r in rows if lists or not isinstance(r, list)]


def _program(case, ctx):
    from phylib.io.traces import BaseEphysReader
    prog = case['program']
    if not valid_cols(prog):
        ctx.note('skipped_invalid_column_program')
        return
    if left_np_scalar_out_of_domain(prog, case['dtype']):
        ctx.note('skipped_left_numpy_scalar_on_single_precision')
        return
    rd, A = readers().get(case['backend'], case['dtype'])
    refl, intdiv, cols_mid = prog_features(prog, case['dtype'])
    nontriv = refl or intdiv or cols_mid
    feats = {'backend': case['backend']}
    eager = call(eval_chain, A, prog)
    lazy = call(eval_chain, rd, prog)
    pkey = hkey(case['backend'], case['dtype'], repr(prog))
    if not eager.ok:
        # error equivalence: the lazy expression must raise the same type no later than at indexing
        ctx.count(1, key=pkey, nontrivial=nontriv, cell=(case['backend'], case['dtype'], 'error_equivalence'))
        got = lazy
        if lazy.ok:
            got = call(lambda: lazy.value[:])
        if got.ok:
            ctx.violation('missing_error', case, 'eager evaluation raises %r but the lazy one returned' % eager.exc, feats)
        elif type(got.exc) is not type(eager.exc):
            ctx.violation('different_error', case, 'eager raises %r, lazy raises %r' % (eager.exc, got.exc),
                          feats, tb=got.tb)
        return
    if not lazy.ok:
        ctx.count(1, key=pkey, nontrivial=nontriv)
        ctx.violation('derive_raised', case, 'building the lazy expression raised %r' % lazy.exc, feats, tb=lazy.tb)
        return
    if not isinstance(lazy.value, BaseEphysReader):
        ctx.count(1, key=pkey, nontrivial=nontriv)
        ctx.violation('not_a_reader', case, 'expression evaluates to %s' % type(lazy.value).__name__, feats)
        return
    E = eager.value
    # (a step may be computed in a coarser floating type than the final result: float32 pow, then + np.int64)
    coarse_tol, x_ = ulp_tol(A), A
    for op_, arg_ in prog:
        x_ = apply_op(x_, op_, arg_)
        coarse_tol = max(coarse_tol, ulp_tol(x_))
    for rows in _rows(case, case['backend'] != 'cbin'):
        if isinstance(rows, slice) and rows.start is not None and rows.start == rows.stop and not call(lambda: rd[rows]).ok:
            ctx.note('empty_row_range_refused_by_backend')        # (then it is outside the statement for this backend)
            continue
        ctx.count(1, key=hkey(pkey, repr(rows)), nontrivial=nontriv,
                  cell=(case['backend'], case['dtype'], 'depth%d' % min(len(prog), 4)))
        rr = call(lambda: lazy.value[rows])
        exp = E[rows] if not isinstance(rows, int) else E[[rows]]        # an integer row keeps a leading axis of length 1
        sub = dict(case, rows=[rows])
        if not rr.ok:
            ctx.violation('index_raised', sub, 'expr(reader)[%r] raised %r' % (rows, rr.exc),
                          dict(feats, exc=rr.exc_name), tb=rr.tb)
            continue
        d = same(rr.value, exp, rtol=max(ulp_tol(exp), coarse_tol))
        if d:
            d = _rowwise(A, prog, rows, rr.value, max(ulp_tol(exp), coarse_tol), ctx) and d
        if d:
            ctx.violation('value_mismatch', sub, 'expr(reader)[%r] != expr(array)[%r]: %s' % (rows, rows, d), feats)
    if nontriv:
        ctx.sample({'backend': case['backend'], 'dtype': case['dtype'], 'program': prog}, every=211)


def _tree(case, ctx):
    from phylib.io.traces import BaseEphysReader
    rd, A = readers().get(case['backend'], case['dtype'])
    nodes = case['nodes']
    rng = np.random.default_rng(case['shuffle'])
    feats = {'backend': case['backend'], 'tree': True}
    lazy = {-1: rd}
    eager = {-1: A}
    tols = {-1: ulp_tol(A)}
    progs = {-1: []}
    children = {}
    alive = [-1]
    rows = slice(1, 6)
    for j, (parent, (op, arg)) in enumerate(nodes):
        if parent not in lazy:
            continue
        prog = progs[parent] + [[op, arg]]
        if not valid_cols(prog) or left_np_scalar_out_of_domain(prog, case['dtype']):
            continue
        e = call(apply_op, eager[parent], op, arg)
        if not e.ok:
            continue
        l_ = call(apply_op, lazy[parent], op, arg)
        if not l_.ok or not isinstance(l_.value, BaseEphysReader):
            ctx.count(1)
            ctx.violation('derive_raised' if not l_.ok else 'not_a_reader', case,
                          'deriving node %d failed: %r' % (j, l_.exc if not l_.ok else type(l_.value)), feats,
                          tb=l_.tb)
            return
        lazy[j], eager[j], progs[j] = l_.value, e.value, prog
        tols[j] = max(tols[parent], ulp_tol(e.value))          # coarsest floating precision met on the way to this node
        children.setdefault(parent, []).append(j)
        alive.append(j)
        if j % 3 == 1:
            # partial failure followed by continued use: a two-axis access whose row part is refused
            victim = alive[int(rng.integers(0, len(alive)))]
            bad = call(lambda: lazy[victim][10 ** 6, [0]])
            if bad.ok:
                ctx.note('out_of_range_row_accepted')
        # after each derivation, every node so far must still equal its own eager expression
        order = list(alive)
        rng.shuffle(order)
        for k in order:
            ctx.count(1, cell=(case['backend'], case['dtype'], 'tree'))
            rr = call(lambda: lazy[k][rows])
            if not rr.ok:
                ctx.violation('index_raised', case, 'node %d raised %r after deriving node %d' % (k, rr.exc, j),
                              dict(feats, exc=rr.exc_name), tb=rr.tb)
                return
            d = same(rr.value, eager[k][rows], rtol=tols[k])
            if d:
                d = _rowwise(A, progs[k], rows, rr.value, tols[k], ctx) and d
            if d:
                ctx.violation('interference', case,
                              'node %d (program %r) changed after deriving node %d (%r): %s' % (
                                  k, progs[k], j, prog, d), feats)
                return
    sib = max([len(v) for v in children.values()] or [0])
    ctx.count(0)
    if sib >= 2:
        ctx.nt('tree', case['backend'], case['dtype'], repr(nodes))
        ctx.sample({'tree': nodes, 'backend': case['backend']}, every=37)
