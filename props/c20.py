"""C20 - No download is reported successful with a file failing its published checksum."""
import hashlib
import itertools
import os
import shutil
import threading
from http.server import BaseHTTPRequestHandler, ThreadingHTTPServer

import numpy as np

from vmon.core import call, hkey, scratch_dir

ID = 'C20'
LEVEL = 'fault_enumeration'
MONITORS = ('M6',)
ANCHORS = ['phylib.io.datasets:download_file', 'phylib.io.datasets:_check_md5_of_url',
           'phylib.io.datasets:_check_md5', 'phylib.io.datasets:_md5', 'phylib.io.datasets:_download',
           'phylib.io.datasets:_save_stream']
RULE = ('A scripted HTTP server on 127.0.0.1 (real sockets, real `requests`) serves, per case, a scripted '
        'sequence of data responses and a checksum behaviour; the case also fixes the prior state of the '
        'target file. EVERY data script of length 1..3 over {good, corrupt, 404} x checksum {correct, wrong, '
        'missing} x prior file {absent, valid, corrupt} = 351 cases (quick and thorough) + 24 cases with near-collision / truncated / empty / 150 KiB / gzip-transfer-encoded bodies and failing or lying HEAD; 60 cases in which the data URL redirects (302) to a mirror without a checksum file, the server adds Content-MD5 / ETag / Digest headers describing the bytes it sends, or the checksum file is an md5sum line with a non-ASCII file name served as ISO-8859-1 (declared or not); plus 6 histories of 2-3 calls for the same url and path with the server and the local file changing in between; thorough adds random '
        'truncated / empty / 150 KiB multi-chunk bodies, failing HEAD requests and per-request checksum '
        'scripts. The monitor is the server request log (M5) + return/exception + final file bytes, judged '
        'against the retry state machine of the statement. non-trivial = distinct scripts whose first '
        'transfer is corrupt/404 or whose prior file is corrupt.')
RULE += " Round 5: servers honouring conditional GET; md5sum files listing several files; targets named through a symlinked directory and '..'."
RULE += ' Round 6: leaf names with ; + ~; a zero-byte published file; a checksum server answering after 6.5 s (thorough: 12 s, 35 s).'
RULE += ' Round 7: 502 / 503 answers; a server honouring Range requests.'
RULE += ' Round 8: checksum responses that are the bare digest, close-delimited (no Content-Length) or gzip-encoded; digest + newline and tab-separated lines (safety clause only).'
RULE += ' Round 9: a checksum URL that fails on its first request only (judged on what the server publishes after the last transfer); checksums served as text/html; HEAD answers with Last-Modified dates (checksum older than data).'
RULE += ' Round 10: targets given as pathlib.Path; bodies equal to the published file up to LF -> CR LF.'
RULE += ' Round 12: 429 / 503 refusals with Retry-After; a constant version ETag on HEAD and GET.'
RULE += ' Round 13: a file name containing colons.'
EXHAUSTIVE = {'quick': True, 'thorough': True}
EXHAUSTIVE_SCOPE = {'quick': 'all 351 scripted fault sequences of the quantifier',
                    'thorough': 'the same 351 plus sampled extended fault kinds'}
FLOORS = {'quick': {'evaluations': 430, 'distinct_nontrivial': 200, 'monitors': {'M5.data_get': 300}},
          'thorough': {'evaluations': 5000, 'distinct_nontrivial': 2000, 'monitors': {'M5.data_get': 3000}}}
ASSUMPTIONS = ['"while the checksum is available" is a fact about the server: for scripts with a constant, served checksum the safety clause is judged whether or not the client requested it',
               'loopback HTTP is available in the sandbox; proxies disabled via no_proxy',
               'a checksum URL that fails transiently (first request only): the safety clause is judged on what the server answers, or would answer, to a checksum request made after the last transfer; request counts are not judged for these scripts',
               'when the checksum is unavailable only "an HTTP error raises" and "file = last body served" '
               'are judged']
NSHARDS = 16
GOOD = b'GOOD-DATA-' + bytes(range(256)) * 4
CORRUPT = b'BAD!-DATA-' + bytes(range(256)) * 4
BIG = (b'0123456789abcdef' * 64) * 150           # 150 KiB: > 100 chunks of 1024 bytes
def _near(body, target):
    """A different body whose MD5 shares its first 3 hex digits with target's (weak-compare bait)."""
    t = hashlib.md5(target).hexdigest()[:3]
    i = 0
    while True:
        b = body + str(i).encode()
        if hashlib.md5(b).hexdigest()[:3] == t:
            return b
        i += 1


BODIES = {'good': GOOD, 'corrupt_near': _near(CORRUPT, GOOD), 'corrupt': CORRUPT, 'truncated': GOOD[:-10], 'empty': b'', 'big_good': BIG,
          'big_corrupt': BIG[:-1] + b'X',
          # the published bytes with every line feed turned into CR LF (what a text-mode transfer does to a file)
          'crlf': GOOD.replace(b'\n', b'\r\n')}


class State(object):
    scripts = {}     # path -> dict(data=[...], md5=[...] or str, head=...)
    log = []
    lock = threading.Lock()


class Handler(BaseHTTPRequestHandler):
    protocol_version = 'HTTP/1.0'

    def log_message(self, *a):
        pass

    def _send(self, code, body=b'', head_only=False, headers=()):
        self.send_response(code)
        self.send_header('Content-Length', str(len(body)))
        for k_, v_ in headers:
            self.send_header(k_, v_)
        self.end_headers()
        if not head_only:
            self.wfile.write(body)

    def do_HEAD(self):
        with State.lock:
            key = self.path[:-4] if self.path.endswith('.md5') else self.path
            sc = State.scripts.get(key)
            State.log.append(('HEAD', self.path))
        if sc is None or sc.get('head') == 'fail':
            return self._send(500, head_only=True)
        body = BODIES[sc['good']]
        if sc.get('stable_etag'):
            return self._send(200, body, head_only=True, headers=[('ETag', '"release-7"')])
        if sc.get('last_modified'):
            # a server that dates its files: the checksum file is older than the data file
            lm = 'Tue, 20 Oct 2026 07:28:00 GMT' if self.path.endswith('.md5') else 'Wed, 21 Oct 2026 07:28:00 GMT'
            return self._send(200, body, head_only=True, headers=[('Last-Modified', lm)])
        if sc.get('head') == 'short':          # a Content-Length that understates / overstates the body
            body = body[:len(body) // 2]
        elif sc.get('head') == 'long':
            body = body + body
        self._send(200, body, head_only=True)

    def do_GET(self):
        path = self.path
        with State.lock:
            if path.endswith('.md5'):
                sc = State.scripts.get(path[:-4])
                State.log.append(('GET_MD5', path))
                if sc is not None and 'alias_of' in sc:
                    sc = None             # the mirror a data URL redirects to publishes no checksum of its own
                if sc is None:
                    beh = 'missing'
                elif isinstance(sc['md5'], dict):
                    # a transient failure: the first request(s) to the checksum URL fail, every later one is answered
                    beh = sc['md5']['first'].pop(0) if sc['md5']['first'] else sc['md5']['then']
                elif isinstance(sc['md5'], list):
                    beh = sc['md5'].pop(0) if sc['md5'] else 'missing'
                else:
                    beh = sc['md5']
                if sc is not None:
                    sc['md5_served'].append(beh)
            else:
                sc = State.scripts.get(path)
                State.log.append(('GET', path))
                if sc is not None and 'alias_of' in sc:
                    sc = State.scripts.get(sc['alias_of'])
                elif sc is not None and sc.get('conditional') and self.headers.get('If-Modified-Since'):
                    State.log.append(('GET_304', path))
                    return self._send(304, b'')           # a server honouring conditional requests
                elif sc is not None and sc.get('redirect'):
                    return self._send(302, b'moved', headers=[('Location', sc['redirect'])])
                beh = (sc['data'].pop(0) if sc and sc['data'] else 'exhausted')
                if sc is not None:
                    sc['served'].append(beh)
        if path.endswith('.md5'):
            if beh == 'missing':
                return self._send(404, b'not found')
            if sc.get('md5_delay'):
                import time as _t
                _t.sleep(sc['md5_delay'])           # a slow checksum server (still answers correctly)
            good = BODIES[sc['good']]
            if beh == 'garbage':
                return self._send(200, b'<html><body>no such file</body></html>')
            h = hashlib.md5(good if beh in ('correct', 'upper', 'latin1', 'latin1_undeclared', 'multi', 'bare', 'nolength', 'gzip_md5', 'bare_nl', 'tabbed', 'html_type') else b'something else').hexdigest()
            if beh in ('bare_nl', 'tabbed'):      # formats the client may or may not understand: only the safety clause is judged
                return self._send(200, (h + ('\n' if beh == 'bare_nl' else '\tfile.bin\n')).encode())
            if beh == 'html_type':     # the usual md5sum line, labelled text/html by the server
                return self._send(200, (h + '  file.bin\n').encode(), headers=[('Content-Type', 'text/html; charset=utf-8')])
            if beh == 'bare':          # only the 32 hex digits: no file name, no line break
                return self._send(200, h.encode())
            if beh == 'nolength':      # a body delimited by closing the connection (no Content-Length header)
                self.send_response(200)
                self.send_header('Content-Type', 'text/plain')
                self.send_header('Connection', 'close')
                self.end_headers()
                self.wfile.write((h + '  file.bin\n').encode())
                self.close_connection = True
                return
            if beh == 'gzip_md5':      # the checksum text compressed in transit, as web servers do for text/plain
                import gzip
                z = gzip.compress((h + '  file.bin\n').encode())
                return self._send(200, z, headers=[('Content-Encoding', 'gzip'), ('Content-Type', 'text/plain')])
            if beh == 'multi':       # md5sum output for several files: the first line is this file's digest
                return self._send(200, ('%s  file.bin\n%s  file.bin.orig\n%s  other.bin\n' % (
                    h, hashlib.md5(BODIES['corrupt']).hexdigest(), hashlib.md5(CORRUPT + b'x').hexdigest())).encode())
            if beh == 'upper':
                h = h.upper()
            if beh.startswith('latin1'):      # md5sum line naming a file with non-ASCII characters, served as ISO-8859-1
                return self._send(200, (h + '  donn\xe9es \xfc.bin\n').encode('latin-1'), headers=[
                    ('Content-Type', 'text/plain; charset=ISO-8859-1' if beh == 'latin1' else 'application/octet-stream')])
            return self._send(200, (h + '  file.bin\n').encode())
        if beh in ('404', 'exhausted', '503', '502', '503ra', '429ra'):
            # (ra: the refusal carries a Retry-After header - it is an HTTP error all the same)
            return self._send({'404': 404, 'exhausted': 500, '503': 503, '502': 502, '503ra': 503, '429ra': 429}[beh], b'error',
                              headers=[('Retry-After', '1')] if beh.endswith('ra') else ())
        rng_h = self.headers.get('Range')
        if sc.get('range') and rng_h and rng_h.startswith('bytes='):
            # a server that honours range requests (resumable downloads)
            start = int(rng_h[6:].split('-')[0] or 0)
            body = BODIES[beh]
            if start >= len(body):
                return self._send(416, b'', headers=[('Content-Range', 'bytes */%d' % len(body))])
            return self._send(206, body[start:], headers=[('Content-Range', 'bytes %d-%d/%d' % (start, len(body) - 1, len(body)))])
        if sc.get('gzip') and 'gzip' in (self.headers.get('Accept-Encoding') or ''):
            import gzip
            z = gzip.compress(BODIES[beh])
            self.send_response(200)
            self.send_header('Content-Encoding', 'gzip')
            self.send_header('Content-Length', str(len(z)))
            self.end_headers()
            self.wfile.write(z)
            return
        hdr = []
        if sc.get('stable_etag'):
            hdr = [('ETag', '"release-7"')]           # a version tag: the same for every answer, whatever bytes are sent
        if sc.get('honest_headers'):
            # what web servers / object stores add on their own: digests of the bytes they are actually sending
            import base64
            dg = hashlib.md5(BODIES[beh])
            hdr = [('Content-MD5', base64.b64encode(dg.digest()).decode()), ('ETag', '"%s"' % dg.hexdigest()),
                   ('Digest', 'MD5=' + base64.b64encode(dg.digest()).decode()), ('Content-Type', 'application/octet-stream')]
        self._send(200, BODIES[beh], headers=hdr)


_SERVER = None


def server():
    global _SERVER
    if _SERVER is None:
        os.environ['no_proxy'] = '*'
        os.environ['NO_PROXY'] = '*'
        srv = ThreadingHTTPServer(('127.0.0.1', 0), Handler)
        srv.daemon_threads = True
        t = threading.Thread(target=srv.serve_forever, daemon=True)
        t.start()
        _SERVER = srv
    return _SERVER


def plan(tier, seed):
    return [{'shard': i, 'n': NSHARDS, 'seed': seed, 'tier': tier} for i in range(NSHARDS)]


def base_cases():
    for L in (1, 2, 3):
        for data in itertools.product(['good', 'corrupt', '404'], repeat=L):
            for md5 in ('correct', 'wrong', 'missing'):
                for prior in ('absent', 'valid', 'corrupt'):
                    yield {'data': list(data), 'md5': md5, 'prior': prior, 'good': 'good', 'head': 'ok'}


def run_shard(desc, ctx):
    for i, c in enumerate(base_cases()):
        if i % desc['n'] == desc['shard']:
            run_case(c, ctx)
    extra = [{'data': dd, 'md5': 'correct', 'prior': pr, 'good': 'good', 'head': hd}
             for dd in (['corrupt_near'], ['corrupt_near', 'good'], ['corrupt_near', 'corrupt_near'],
                        ['truncated', 'good'], ['empty', 'good'], ['big_corrupt', 'big_good'])
             for pr in ('absent', 'corrupt') for hd in ('ok', 'fail', 'short', 'long')]
    # served-but-oddly-formatted checksums (uppercase hex, an HTML page): only the central safety clause
    # is judged for these (a normal return must leave a file matching the published digest)
    extra += [{'data': dd, 'md5': mm, 'prior': pr, 'good': 'good', 'head': 'ok'}
              for dd in (['corrupt', 'corrupt'], ['corrupt'], ['good'], ['corrupt', 'good'])
              for mm in ('upper', 'garbage', 'bare_nl', 'tabbed') for pr in ('absent', 'corrupt')]
    hist = [
        [{'data': ['good'], 'md5': 'correct'}, {'data': ['corrupt', 'corrupt'], 'md5': 'correct', 'mutate': 'corrupt'}],
        [{'data': ['good'], 'md5': 'correct'}, {'data': ['corrupt', 'good'], 'md5': 'correct', 'mutate': 'corrupt'}],
        [{'data': ['good'], 'md5': 'correct'}, {'data': ['good'], 'md5': 'correct'}, {'data': ['corrupt'], 'md5': 'wrong'}],
        [{'data': ['corrupt', 'corrupt'], 'md5': 'correct'}, {'data': ['good'], 'md5': 'correct'}],
        [{'data': ['good'], 'md5': 'missing'}, {'data': ['corrupt', 'corrupt'], 'md5': 'correct', 'mutate': 'corrupt'}],
        [{'data': ['good'], 'md5': 'correct'}, {'data': ['404'], 'md5': 'correct', 'mutate': 'delete'}, {'data': ['good'], 'md5': 'correct'}],
    ]
    for i, steps in enumerate(hist):
        if i % desc['n'] == desc['shard']:
            run_case({'steps': steps}, ctx)
    extra += [{'data': dd, 'md5': 'correct', 'prior': pr, 'good': 'good', 'head': 'ok', 'gzip': True}
              for dd in (['corrupt', 'corrupt'], ['corrupt', 'good'], ['good'], ['corrupt']) for pr in ('absent', 'corrupt')]
    # the data URL redirects to a mirror that has no checksum file of its own; servers that add digest headers
    # describing the bytes they send; checksum files with non-ASCII file names served as ISO-8859-1
    for dd in (['corrupt', 'corrupt'], ['corrupt', 'good'], ['good'], ['corrupt'], ['404']):
        for pr in ('absent', 'corrupt', 'valid'):
            extra.append({'data': dd, 'md5': 'correct', 'prior': pr, 'good': 'good', 'head': 'ok', 'redirect': True})
            extra.append({'data': dd, 'md5': 'correct', 'prior': pr, 'good': 'good', 'head': 'ok', 'honest_headers': True})
            extra.append({'data': dd, 'md5': 'latin1', 'prior': pr, 'good': 'good', 'head': 'ok'})
            extra.append({'data': dd, 'md5': 'latin1_undeclared', 'prior': pr, 'good': 'good', 'head': 'ok'})
            extra.append({'data': dd, 'md5': 'multi', 'prior': pr, 'good': 'good', 'head': 'ok'})
            for mm in ('bare', 'nolength', 'gzip_md5', 'html_type'):
                extra.append({'data': dd, 'md5': mm, 'prior': pr, 'good': 'good', 'head': 'ok'})
            extra.append({'data': dd, 'md5': 'correct', 'prior': pr, 'good': 'good', 'head': 'ok', 'conditional': True})
            extra.append({'data': dd, 'md5': 'correct', 'prior': pr, 'good': 'good', 'head': 'ok', 'outpath': 'link_dotdot'})
    # the checksum URL fails on its first request only (a transient error) and answers from then on
    for dd in (['corrupt', 'good'], ['corrupt', 'corrupt'], ['good'], ['corrupt']):
        for pr in ('absent', 'valid', 'corrupt'):
            for then in ('correct', 'wrong'):
                extra.append({'data': dd, 'md5': {'first': ['missing'], 'then': then}, 'prior': pr, 'good': 'good', 'head': 'ok'})
    # a server that dates its files (Last-Modified on HEAD): the checksum file is older than the data file
    for dd in (['corrupt', 'corrupt'], ['corrupt', 'good'], ['good'], ['corrupt', 'corrupt', 'good']):
        for pr in ('absent', 'corrupt'):
            extra.append({'data': dd, 'md5': 'correct', 'prior': pr, 'good': 'good', 'head': 'ok', 'last_modified': True})
    # refusals that carry a Retry-After header; a server that tags every answer with the same (version) ETag
    for dd in (['503ra'], ['429ra'], ['503ra', 'good'], ['corrupt', '429ra', 'good'], ['corrupt', '503ra']):
        for pr in ('absent', 'corrupt'):
            extra.append({'data': dd, 'md5': 'correct', 'prior': pr, 'good': 'good', 'head': 'ok'})
    for dd in (['corrupt', 'good'], ['corrupt', 'corrupt'], ['good'], ['corrupt']):
        for pr in ('absent', 'corrupt', 'valid'):
            extra.append({'data': dd, 'md5': 'correct', 'prior': pr, 'good': 'good', 'head': 'ok', 'stable_etag': True})
    # a corruption that only changes line ends (LF -> CR LF): another file, another MD5
    for dd in (['crlf', 'crlf'], ['crlf', 'good'], ['crlf'], ['good'], ['404']):
        for pr in ('absent', 'crlf', 'valid'):
            extra.append({'data': dd, 'md5': 'correct', 'prior': pr, 'good': 'good', 'head': 'ok'})
    # gateway errors (502 / 503) are HTTP errors like any other; servers that honour Range requests
    for dd in (['503'], ['502'], ['corrupt', '503'], ['good'], ['corrupt', 'good'], ['corrupt', 'corrupt']):
        for pr in ('absent', 'valid', 'corrupt'):
            extra.append({'data': dd, 'md5': 'correct', 'prior': pr, 'good': 'good', 'head': 'ok'})
            extra.append({'data': dd, 'md5': 'correct', 'prior': pr, 'good': 'good', 'head': 'ok', 'range': True})
    # the published file is empty (zero bytes): an empty local file is then the valid one
    for dd in (['404'], ['corrupt'], ['empty'], ['corrupt', 'empty'], ['corrupt', 'corrupt']):
        for pr in ('absent', 'valid', 'corrupt'):
            extra.append({'data': dd, 'md5': 'correct', 'prior': pr, 'good': 'empty', 'head': 'ok'})
    # a checksum server that answers correctly but slowly (6.5 s; thorough: also 12 s and 35 s)
    for dl in ([6.5] if desc['tier'] != 'thorough' else [6.5, 12., 35.]):
        extra.append({'data': ['corrupt', 'good'], 'md5': 'correct', 'prior': 'absent', 'good': 'good', 'head': 'ok', 'md5_delay': dl})
    for i, c in enumerate(extra):
        if i % desc['n'] == desc['shard']:
            if c['data'][0].startswith('big'):
                c['good'] = 'big_good'
            run_case(c, ctx)
    if desc['tier'] == 'thorough':
        rng = np.random.default_rng([desc['seed'], desc['shard'], 20])
        kinds = ['good', 'corrupt', '404', 'truncated', 'empty', 'corrupt_near']
        for i in range(10000 // desc['n']):
            big = rng.random() < 0.08
            L = int(rng.integers(1, 4))
            data = [kinds[int(rng.integers(0, len(kinds)))] for _ in range(L)]
            if big:
                data = [{'good': 'big_good', 'corrupt': 'big_corrupt'}.get(d, d) for d in data]
            md5 = ['correct', 'wrong', 'missing'][int(rng.integers(0, 3))]
            if rng.random() < 0.3:
                md5 = [['correct', 'wrong', 'missing'][int(rng.integers(0, 3))] for _ in range(4)]
            run_case({'data': data, 'md5': md5, 'prior': ['absent', 'valid', 'corrupt', 'empty'][int(rng.integers(0, 4))],
                      'good': 'big_good' if big else 'good', 'head': 'fail' if rng.random() < 0.3 else 'ok'}, ctx)


_COUNTER = [0]


def expected(case):
    """Reference retry state machine. Returns (outcome, n_data_gets, final_body_kind or 'prior'/None)
    outcome in {'return', 'raise'}; None = not determined by the statement."""
    good = case['good']
    md5s = list(case['md5']) if isinstance(case['md5'], list) else None
    tr = {'first': list(case['md5']['first']), 'then': case['md5']['then']} if isinstance(case['md5'], dict) else None

    def next_md5():
        if tr is not None:
            return tr['first'].pop(0) if tr['first'] else tr['then']
        if md5s is None:
            return case['md5']
        return md5s.pop(0) if md5s else 'missing'

    def verify(body_kind):
        beh = next_md5()
        if beh == 'missing':
            return None
        if beh == 'wrong':
            return False
        return BODIES[body_kind] == BODIES[good] if body_kind in BODIES else False
    data = list(case['data'])
    prior = case['prior']
    prior_kind = {'valid': good, 'corrupt': 'corrupt', 'empty': 'empty', 'crlf': 'crlf'}.get(prior)
    verified_all = True
    if prior != 'absent':
        v = verify(prior_kind)
        if v is True:
            return 'return', 0, 'prior', True
        if v is None:
            verified_all = False
    gets = 0
    d1 = data.pop(0) if data else 'exhausted'
    gets += 1
    if d1 in ('404', 'exhausted', '503', '502', '503ra', '429ra'):
        return 'raise', gets, None, verified_all
    v = verify(d1)
    if v is not False:
        return 'return', gets, d1, verified_all and v is True
    d2 = data.pop(0) if data else 'exhausted'
    gets += 1
    if d2 in ('404', 'exhausted', '503', '502', '503ra', '429ra'):
        return 'raise', gets, None, verified_all
    v = verify(d2)
    if v is False:
        return 'raise', gets, d2, verified_all
    return 'return', gets, d2, verified_all and v is True


def run_case(case, ctx, shared=None):
    if 'steps' in case:
        # history: several download calls for the SAME url and target path in one process; between the calls
        # the server behaviour and the local file change. Every call is judged on its own.
        sh = {'path': None, 'dir': scratch_dir('c20h_')}
        try:
            for i, step in enumerate(case['steps']):
                out = os.path.join(sh['dir'], 'file.bin')
                mut = step.get('mutate')
                if mut == 'corrupt' and os.path.exists(out):
                    open(out, 'wb').write(CORRUPT + b'y')
                elif mut == 'delete' and os.path.exists(out):
                    os.remove(out)
                cur = open(out, 'rb').read() if os.path.exists(out) else None
                prior = 'absent' if cur is None else ('valid' if cur == BODIES[step.get('good', 'good')] else 'corrupt')
                run_case(dict(step, prior=prior, good=step.get('good', 'good'), head='ok', step=i), ctx, shared=sh)
        finally:
            shutil.rmtree(sh['dir'], ignore_errors=True)
        return
    from phylib.io.datasets import download_file
    from phylib.utils import event as ev
    srv = server()
    if shared is not None and shared['path']:
        path = shared['path']
    else:
        _COUNTER[0] += 1
        # last path segments as they occur: plain, with ;parameters, with characters that urllib treats specially
        leaf = ['file.bin', 'spikes;rev=2.bin', 'file.bin', 'data+set~1.bin', 'file.bin', 'session-2020.01.01T12:30:00.dat'][_COUNTER[0] % 6]      # (a time stamp with colons)
        path = '/c%d_%d/%s' % (os.getpid(), _COUNTER[0], leaf)
        if shared is not None:
            shared['path'] = path
    url = 'http://127.0.0.1:%d%s' % (srv.server_address[1], path)
    d = shared['dir'] if shared is not None else scratch_dir('c20_')
    out = os.path.join(d, 'file.bin')
    if case.get('outpath') == 'link_dotdot' and shared is None:
        # the target named through a symlinked directory and '..' (the OS resolves the link first)
        os.makedirs(os.path.join(d, 'real', 'sub'))
        os.symlink(os.path.join(d, 'real', 'sub'), os.path.join(d, 'link'))
        out = os.path.join(d, 'link', '..', 'file.bin')
    good = case['good']
    prior_bytes = {'absent': None, 'valid': BODIES[good], 'corrupt': CORRUPT + b'x', 'empty': b'', 'crlf': BODIES['crlf']}[case['prior']]
    if shared is not None:
        prior_bytes = open(out, 'rb').read() if os.path.exists(out) else None     # state left by the previous step
    elif prior_bytes is not None:
        with open(out, 'wb') as f:
            f.write(prior_bytes)
    sc = {'data': list(case['data']), 'md5': list(case['md5']) if isinstance(case['md5'], list) else (
        {'first': list(case['md5']['first']), 'then': case['md5']['then']} if isinstance(case['md5'], dict) else case['md5']),
          'good': good, 'head': case['head'], 'served': [], 'md5_served': [], 'gzip': bool(case.get('gzip'))}
    mirror = None
    if case.get('redirect'):
        mirror = path.replace('/c', '/mirror_c', 1)
        sc['redirect'] = mirror
    if case.get('honest_headers'):
        sc['honest_headers'] = True
    if case.get('conditional'):
        sc['conditional'] = True
    if case.get('md5_delay'):
        sc['md5_delay'] = case['md5_delay']
    if case.get('range'):
        sc['range'] = True
    if case.get('last_modified'):
        sc['last_modified'] = True
    if case.get('stable_etag'):
        sc['stable_etag'] = True
    with State.lock:
        State.scripts[path] = sc
        if mirror:
            State.scripts[mirror] = {'alias_of': path}
    completes = []
    ev.reset()
    ev.connect(lambda sender, **kw: completes.append(1), event='complete')
    first_bad = case['data'][0] != 'good' and case['data'][0] != 'big_good'
    ctx.count(1, key=hkey(repr(case)), nontrivial=first_bad or case['prior'] in ('corrupt', 'empty'),
              cell=('md5_%s' % (case['md5'] if isinstance(case['md5'], str) else ('transient' if isinstance(case['md5'], dict) else 'scripted')), 'prior_' + case['prior'],
                    'len%d' % len(case['data'])))
    ctx.sample(case, every=41)
    with State.lock:
        log0 = len(State.log)
    try:
        from pathlib import Path
        r = call(download_file, url, Path(out) if _COUNTER[0] % 2 else out)          # the target as a str or a Path
        served = list(sc['served'])
        md5_served = list(sc['md5_served'])
        ctx.mon('M5.data_get', len(served))
        ctx.mon('M5.md5_get', len(md5_served))
        ctx.mon('M4.complete_events', len(completes))
        final = open(out, 'rb').read() if os.path.exists(out) else None
        exp_outcome, exp_gets, exp_body, verified = expected(case)
        feats = {'md5': case['md5'] if isinstance(case['md5'], str) else 'scripted', 'prior': case['prior']}
        info = 'served=%r md5=%r outcome=%s' % (served, md5_served, 'returned' if r.ok else repr(r.exc))
        published = hashlib.md5(BODIES[good]).hexdigest()
        all_md5_ok = bool(md5_served) and all(m != 'missing' for m in md5_served)
        if isinstance(case['md5'], str) and case['md5'] != 'missing':
            # 'while the checksum is available' is a fact about the server, not about what the client chose to ask
            all_md5_ok = True
            md5_served = md5_served or [case['md5']]
        # (1) the central safety property
        strict = not isinstance(case['md5'], dict) and all(m in ('correct', 'wrong', 'missing', 'latin1', 'multi', 'bare', 'nolength', 'gzip_md5', 'html_type') for m in
                     (case['md5'] if isinstance(case['md5'], list) else [case['md5']]))
        if r.ok and all_md5_ok:
            last = md5_served[-1]
            pub = {'correct': published, 'upper': published, 'latin1': published, 'latin1_undeclared': published, 'multi': published, 'bare': published, 'nolength': published, 'gzip_md5': published, 'html_type': published, 'bare_nl': published, 'tabbed': published, 'garbage': None}.get(
                last, hashlib.md5(b'something else').hexdigest())
            if final is None or hashlib.md5(final).hexdigest() != pub:
                ctx.violation('returned_with_bad_checksum', case,
                              'download_file returned normally but the file does not match the published MD5; ' + info, feats)
        if isinstance(case['md5'], dict):
            # the checksum URL failed transiently: what counts is what the server answers (or would answer) to a checksum
            # request made after the last transfer - a normal return with another file than that checksum describes is a violation
            with State.lock:
                lg = [e for e in State.log[log0:] if e[1] in (path, path + '.md5') and e[0] in ('GET', 'GET_MD5')]
            post = 0
            for e in reversed(lg):
                if e[0] != 'GET_MD5':
                    break
                post += 1
            now = md5_served[-1] if post and md5_served else (sc['md5']['first'][0] if sc['md5']['first'] else sc['md5']['then'])
            ctx.mon('transient_checksum_cases')
            if r.ok and now in ('correct', 'wrong'):
                pub_ = published if now == 'correct' else hashlib.md5(b'something else').hexdigest()
                if final is None or hashlib.md5(final).hexdigest() != pub_:
                    ctx.violation('returned_with_bad_checksum', case, 'download_file returned normally with a file that does not match the checksum '
                                  'the server publishes after the last transfer (the checksum URL had failed %d time(s) before); %s' % (
                                      len(case['md5']['first']), info), dict(feats, transient=True))
        # (2) outcome and request counts per the retry state machine
        if not strict:
            pass
        elif (exp_outcome == 'return') != r.ok:
            ctx.violation('wrong_outcome', case, 'expected %s; %s' % (exp_outcome, info),
                          dict(feats, expected=exp_outcome), tb=r.tb)
        elif len(served) != exp_gets and (verified or exp_gets == 0 or len(served) == 0 or
                                          isinstance(case['md5'], str) and case['md5'] != 'missing'):
            ctx.violation('wrong_number_of_transfers', case, 'expected %d data GETs; %s' % (exp_gets, info),
                          dict(feats, expected=exp_gets))
        elif case['md5'] == 'missing' and len(served) < 1:
            ctx.violation('wrong_number_of_transfers', case, 'no data GET although nothing could be verified; ' + info, feats)
        # (3) file content = last body served (or the untouched prior file)
        if r.ok:
            okbodies = [b for b in served if b in BODIES]
            want = BODIES[okbodies[-1]] if okbodies else prior_bytes
            if final != want:
                ctx.violation('file_content', case, 'final file is not the last body served; ' + info, feats)
    finally:
        with State.lock:
            State.scripts.pop(path, None)
            State.scripts.pop(mirror, None)
        ev.reset()
        if shared is None:
            shutil.rmtree(d, ignore_errors=True)
