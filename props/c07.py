"""C07 - Spike-cluster index utilities partition the spikes."""
import itertools
import shutil

import numpy as np

from gen.dataset import random_spec
from vmon.core import as_id, call, same, hkey, scratch_dir

ID = 'C07'
LEVEL = 'exploration'
MONITORS = ('M2', 'M6')
ANCHORS = ['phylib.io.array:_spikes_per_cluster', 'phylib.io.array:_spikes_in_clusters',
           'phylib.io.array:_unique', 'phylib.io.array:_index_of', 'phylib.io.array:_flatten_per_cluster',
           'phylib.io.array:grouped_mean', 'phylib.io.model:TemplateModel.get_cluster_spikes',
           'phylib.io.model:TemplateModel.get_template_spikes',
           'phylib.io.model:TemplateModel.get_template_counts']
RULE = ('EVERY cluster-assignment vector of length <= L over the id alphabet {0,2,3,7} (thorough: '
        '{0,2,3,7,9}) x dtype {int32,int64,uint16,uint32} x {no spike ids, shifted spike ids}, plus every vector of length <= 4 over the sparse large ids {5,70000,123456} and over the dtype-boundary ids {0,7,300,65535}; medium vectors with request lists of 18-70 wide-ranged ids; for each: '
        '_spikes_per_cluster, _spikes_in_clusters for subsets of {0,2,3,5,7} in shuffled order (all 32 '
        'for length <= 4, 8 rotating otherwise), _unique, _index_of against an unsorted lookup, '
        '_flatten_per_cluster, grouped_mean (1-D and 2-D values). Judged twice: by the set-theoretic M2 '
        'postconditions on the live functions and by the driver (groups partition the spikes; '
        'selection = sorted union of groups). Plus random long vectors (10^3-10^5 spikes, 1-300 ids) '
        'and the TemplateModel queries on generated datasets. non-trivial = distinct vectors with a gap '
        'in the ids, a single cluster, or an unsigned dtype.')
RULE += " Added classes: -1 ('unclustered') ids in signed assignment vectors for the functions that accept them; sparse-template models with curated clusters for the model-level counts; per-cluster magnitudes up to 1e17 and NaN / inf members in grouped_mean (other clusters must be unaffected)."
RULE += ' Assignment vectors also arrive read-only and as strided views; model queries take ids as NumPy scalars of rotating dtypes and are repeated after the caller overwrote the arrays it was given.'
RULE += ' Round 5: long vectors (>= 4096 spikes) whose ids span 255..257 / 65535..65537; requests padded with repeated ids to the length of their id span; _flatten_per_cluster on shuffled, single, repeating and overlapping groups.'
RULE += ' Round 6: float32 values near 1000 over long vectors (means judged to a few float32 ulps of the largest member); vectors over {-1, 5, 70000}.'
RULE += " Round 7: negative ids other than -1; returned groups vs the caller's spike-id buffer (writes in either direction); datasets without a templates file."
RULE += ' Round 8: blocky vectors in which ids recur in later runs; int64 ids near 2**61; a vector of 2**22 + 1000 spikes; _index_of with unsorted lookups whose ids are much larger than the arrays.'
RULE += ' Round 9: lookups that are permutations of 0..m-1 (both ends in place or not, -1 kept); dictionaries whose groups are all empty.'
RULE += ' Round 10: model.spike_clusters replaced by a new array before queries; column-major 2-D values in grouped_mean.'
RULE += " Round 11: requests of 36-41 ids that include absent negative ids; runs of _index_of calls whose largest lookup id grows and shrinks by one; grouped_mean under np.errstate(all='raise') with warnings as errors."
RULE += " Round 12: lookups ending in -1 (the library's own form); groups that are overlapping windows of one array; a model with 66000 spikes of one template under 16-bit ids."
RULE += ' Round 13: values with two trailing axes in grouped_mean; groups of different integer widths and an empty float group after an integer one.'
EXHAUSTIVE = {'quick': True, 'thorough': True}
EXHAUSTIVE_SCOPE = {'quick': 'length <= 6 over 4 ids', 'thorough': 'length <= 8 over 4 ids, <= 6 over 5 ids'}
FLOORS = {'quick': {'evaluations': 40000, 'distinct_nontrivial': 20000,
                    'monitors': {'M2._spikes_per_cluster.checked': 40000, 'M2._index_of.checked': 40000,
                                 'M2._spikes_in_clusters.checked': 100000, 'M2._unique.checked': 40000,
                                 'M2.grouped_mean.checked': 40000, 'M2._flatten_per_cluster.checked': 40000}},
          'thorough': {'evaluations': 400000, 'distinct_nontrivial': 200000,
                       'monitors': {'M2._spikes_per_cluster.checked': 400000}}}
ASSUMPTIONS = ['negative ids ("unclustered") only enter _unique; _index_of is judged only under its '
               'documented precondition (values present in a duplicate-free non-negative lookup), plus the form the library itself builds: a lookup ending in -1']
DTYPES = ['int32', 'int64', 'uint16', 'uint32']
NSHARDS = 16
POOL = [0, 2, 3, 5, 7]


def plan(tier, seed):
    return [{'shard': i, 'n': NSHARDS, 'seed': seed, 'tier': tier} for i in range(NSHARDS)]


def run_shard(desc, ctx):
    tier, sh, ns = desc['tier'], desc['shard'], desc['n']
    specs = [([0, 2, 3, 7], 6)] if tier == 'quick' else [([0, 2, 3, 7], 8), ([0, 2, 3, 7, 9], 6)]
    idx = 0
    for alpha, Lmax in specs:
        for n in range(1, Lmax + 1):
            for vec in itertools.product(alpha, repeat=n):
                idx += 1
                if idx % ns != sh:
                    continue
                for di, dt in enumerate(DTYPES):
                    if tier == 'thorough' and n >= 8 and di != idx % 4:
                        continue
                    for shifted in (False, True):
                        run_case({'vec': list(vec), 'dtype': dt, 'shifted': shifted, 'rot': idx}, ctx)
    # short vectors over sparse, large ids (lookup tables much larger than the data)
    for n in range(1, 5):
        for vec in itertools.product([5, 70000, 123456], repeat=n):
            idx += 1
            if idx % ns != sh:
                continue
            for dt in ('int32', 'int64', 'uint32'):
                run_case({'vec': list(vec), 'dtype': dt, 'shifted': bool(idx % 2), 'rot': idx}, ctx)
    # the id -1 ("unclustered") in signed vectors: it is an id like any other for the grouping functions
    for n in range(1, 6):
        for vec in itertools.product([-1, 0, 3, 7], repeat=n):
            idx += 1
            if idx % ns != sh or -1 not in vec:
                continue
            for dt in ('int32', 'int64'):
                run_case({'vec': list(vec), 'dtype': dt, 'shifted': bool(idx % 2), 'rot': idx}, ctx)
    # negative ids other than -1 (they are ids like any other for the grouping functions; _unique leaves them out)
    for n in range(2, 6):
        for vec in itertools.product([-5, -2, -1, 0, 3, 7], repeat=n):
            idx += 1
            if idx % ns != sh or min(vec) > -2 or idx % 5:
                continue
            run_case({'vec': list(vec), 'dtype': ['int32', 'int64'][idx % 2], 'shifted': bool(idx % 3 == 0), 'rot': idx}, ctx)
    # -1 next to sparse large ids
    for n in range(2, 5):
        for vec in itertools.product([-1, 5, 70000], repeat=n):
            idx += 1
            if idx % ns != sh or -1 not in vec or 70000 not in vec:
                continue
            for dt in ('int32', 'int64'):
                run_case({'vec': list(vec), 'dtype': dt, 'shifted': bool(idx % 2), 'rot': idx}, ctx)
    # dtype boundary ids
    for n in range(1, 5):
        for vec in itertools.product([0, 7, 300, 65535], repeat=n):
            idx += 1
            if idx % ns != sh:
                continue
            for dt in ('uint16', 'int32', 'uint32'):
                run_case({'vec': list(vec), 'dtype': dt, 'shifted': bool(idx % 2), 'rot': idx}, ctx)
    rng = np.random.default_rng([desc['seed'], sh, 7])
    # medium vectors with long, wide-ranged request lists (NumPy switches membership algorithms on these)
    for _ in range((400 if tier == 'quick' else 8000) // ns + 1):
        n = int(rng.integers(20, 200))
        ids = np.sort(rng.permutation(5000)[:int(rng.integers(2, 8))])
        run_case({'rand': [int(desc['seed']), sh, int(_), 77], 'n': n, 'ids': ids.tolist(), 'long_request': True,
                  'dtype': DTYPES[int(rng.integers(0, 4))], 'shifted': bool(rng.integers(0, 2)), 'rot': _}, ctx)
    for _ in range((200 if tier == 'quick' else 5000) // ns + 1):
        n = int(10 ** rng.uniform(3, 5 if tier == 'thorough' else 4.3))
        k = int(rng.integers(1, 301))
        ids = np.sort(rng.permutation(2000)[:k])
        run_case({'rand': [int(desc['seed']), sh, int(_)], 'n': n, 'ids': ids.tolist(),
                  'dtype': DTYPES[int(rng.integers(0, 4))], 'shifted': bool(rng.integers(0, 2)), 'rot': _}, ctx)
    # blocky vectors: long runs of one id, ids recurring after other ids (24-40 runs of 20-60 spikes)
    for j in range(3):
        if (sh + j) % 4 == 0:
            nruns = int(rng.integers(24, 41))
            run_ids = rng.choice([4, 2, 1, 9], size=nruns)
            vec = np.concatenate([np.full(int(rng.integers(20, 61)), i_) for i_ in run_ids])
            run_case({'vec': vec.tolist(), 'dtype': DTYPES[(sh + j) % 4], 'shifted': bool(j % 2), 'rot': 7 * j + sh}, ctx)
    # ids from a very sparse 64-bit id space (grouping functions only)
    if sh % 4 == 1:
        for vec in ([5, 2 ** 61, 5, 2 ** 43 + 7, 2 ** 61, 5, 2 ** 61 + 1, 5, 2 ** 43 + 7, 5, 2 ** 61, 5],
                    [2 ** 62, 3, 2 ** 62, 3, 3, 2 ** 40]):
            run_case({'vec': vec, 'dtype': 'int64', 'shifted': False, 'rot': sh, 'huge_ids': True}, ctx)
    # one vector of more than 2**22 spikes (not a multiple of 2**22)
    if sh == 9:
        run_case({'kind': 'very_long', 'n': 2 ** 22 + 1000, 'seed': [int(desc['seed']), sh]}, ctx)
    # long vectors whose id span sits on a dtype boundary (255..257, 65535..65537)
    for j, span in enumerate([65536, 65535, 65537, 256, 255, 257]):
        if j != sh % 6 and tier == 'quick':
            continue
        p0 = [12, 0, 1, 70000][(j + sh) % 4]
        run_case({'rand': [int(desc['seed']), sh, j, 7777], 'n': int(rng.integers(4096, 9000)), 'ids': [p0, p0 + 1, p0 + span // 2, p0 + span],
                  'dtype': ['int32', 'int64', 'uint32'][(j + sh) % 3], 'shifted': bool(j % 2), 'rot': j}, ctx)
    for r in range(4 if tier == 'quick' else 60):
        run_case({'model': [int(desc['seed']), sh, r]}, ctx)
    if sh == 4:
        # 16-bit template ids and a cluster with more than 65536 spikes of one template
        run_case({'model': [int(desc['seed']), sh, 5000], 'big_counts': True}, ctx)
    if sh == 0:
        run_case({'empties': True}, ctx)


def _very_long(case, ctx):
    from phylib.io import array as pa
    rng = np.random.default_rng(case['seed'])
    n = case['n']
    for dt in ('uint16', 'int32'):
        sc = rng.choice(np.array([3, 0, 7, 11]), size=n).astype(dt)
        ctx.count(1, key=hkey('very_long', n, dt), nontrivial=True, cell=('very_long', dt))
        for req in ([7], [11, 3], [5]):
            rr = call(pa._spikes_in_clusters, sc, req)
            exp = np.nonzero(np.isin(sc, req))[0]
            if not rr.ok or same(rr.value, exp, dtype=False):
                ctx.violation('selection_not_union' if rr.ok else 'raised', {'kind': 'very_long', 'n': n, 'dtype': dt, 'request': req},
                              '_spikes_in_clusters on %d spikes: %s' % (n, rr.exc if not rr.ok else same(rr.value, exp, dtype=False)), {'dtype': dt, 'very_long': True}, tb=rr.tb)
                return


def run_case(case, ctx):
    if 'model' in case:
        return _model_case(case, ctx)
    if case.get('kind') == 'very_long':
        return _very_long(case, ctx)
    if case.get('empties'):
        from phylib.io import array as pa
        ctx.count(1, cell=('empties',))
        checks = [('_spikes_per_cluster', lambda: pa._spikes_per_cluster(np.zeros(0, dtype=np.int32)) == {}),
                  ('_spikes_in_clusters', lambda: len(pa._spikes_in_clusters(np.array([1, 2]), [])) == 0),
                  ('_spikes_in_clusters', lambda: len(pa._spikes_in_clusters(np.zeros(0, dtype=np.int64), [1])) == 0),
                  ('_unique', lambda: len(pa._unique(np.zeros(0, dtype=np.int64))) == 0),
                  ('_index_of', lambda: len(pa._index_of(np.zeros(0, dtype=np.int64), [3, 4])) == 0)]
        for name, f in checks:
            r = call(f)
            if not r.ok or not r.value:
                ctx.violation('empty_input', case, '%s on an empty input: %r' % (name, r.exc if not r.ok else 'wrong result'),
                              {'function': name}, tb=r.tb)
        return
    from phylib.io import array as pa
    if 'rand' in case:
        rng = np.random.default_rng(case['rand'])
        sc = rng.choice(np.array(case['ids']), size=case['n']).astype(case['dtype'])
        long_ = True
    else:
        sc = np.array(case['vec'], dtype=case['dtype'])
        long_ = False
    # the caller's array as it may come: read-only (np.load(mmap_mode='r')), or a strided view of a larger array
    lay = case.get('rot', 0) % 4
    if lay >= 2 and len(sc):
        big = np.zeros(2 * len(sc), dtype=sc.dtype)
        big[::2] = sc
        sc = big[::2]
    if lay % 2:
        sc.flags.writeable = False
    n = len(sc)
    ids_present = sorted(set(sc.tolist()))
    has_neg = ids_present[0] < 0
    gap = any(b - a > 1 for a, b in zip(ids_present, ids_present[1:])) or ids_present[0] != 0
    nontriv = gap or len(ids_present) == 1 or sc.dtype.kind == 'u'
    ctx.count(1, key=hkey(tuple(case.get('vec') or case['rand']), case['dtype'], case['shifted']),
              nontrivial=nontriv, cell=('long' if long_ else 'len%d' % n, case['dtype'],
                                        'ids' if case['shifted'] else 'noids'))
    ctx.sample(case if not long_ else {k: v for k, v in case.items() if k != 'ids'}, every=4001)
    feats = {'dtype': case['dtype']}
    spike_ids = (np.arange(n, dtype=np.int64) * 3 + 11) if case['shifted'] else None
    base_ids = spike_ids if spike_ids is not None else np.arange(n)

    # _spikes_per_cluster: partition
    r = call(pa._spikes_per_cluster, sc, spike_ids) if spike_ids is not None else call(pa._spikes_per_cluster, sc)
    if not r.ok:
        ctx.violation('raised', case, '_spikes_per_cluster raised %r' % r.exc, feats, tb=r.tb)
        return
    spc = r.value
    ok = isinstance(spc, dict) and sorted(int(k) for k in spc) == ids_present
    if ok:
        allv = np.concatenate([np.asarray(v) for v in spc.values()])
        ok = len(allv) == n and sorted(allv.tolist()) == base_ids.tolist()
        for k, v in spc.items():
            v = np.asarray(v)
            if (np.diff(v) <= 0).any() or not (sc[(v - 11) // 3 if case['shifted'] else v] == k).all():
                ok = False
    if not ok:
        ctx.violation('not_a_partition', case, '_spikes_per_cluster -> %r' % (
            {int(k): np.asarray(v).tolist()[:20] for k, v in list(spc.items())[:8]}
            if isinstance(spc, dict) else spc), feats)
    # the groups are the caller's own arrays, and so is the id vector it supplied: writing into one must not change the other
    if spike_ids is not None and isinstance(spc, dict) and ok:
        kept = {k: np.array(v, copy=True) for k, v in spc.items()}
        ids_copy = spike_ids.copy()
        k0_ = sorted(spc)[0]
        if isinstance(spc[k0_], np.ndarray) and spc[k0_].flags.writeable and spc[k0_].size:
            spc[k0_][...] = -7
            if not np.array_equal(spike_ids, ids_copy):
                ctx.violation('inputs_modified', case, 'writing into a returned group changed the spike-id vector supplied by the caller', feats)
            spc[k0_][...] = kept[k0_]
        spike_ids[...] = -9                    # the caller recycles its id buffer
        if any(not np.array_equal(np.asarray(spc[k]), kept[k]) for k in kept):
            ctx.violation('not_a_partition', case, 'groups returned earlier changed when the caller reused its spike-id buffer', dict(feats, held_result=True))
        spike_ids[...] = ids_copy
    # _spikes_in_clusters: sorted union of groups (groups by index, so recompute without ids)
    groups = {c: np.nonzero(sc == c)[0] for c in ids_present}
    pool5 = (POOL + [-1] if has_neg else POOL) if max(ids_present) < 100 else ([5, 70000, 9, 123456, 2] if max(ids_present) > 65535 else [0, 7, 65535, 300, 65534])
    subsets = [list(s) for r_ in range(0, 6) for s in itertools.combinations(pool5, r_)]
    if long_ or n > 4:
        subsets = [subsets[(case['rot'] * 5 + j * 7) % len(subsets)] for j in range(8)]
    if long_:
        pool = ids_present + [max(ids_present) + 5]
        subsets = [pool[::3], pool[1::4][::-1], [pool[-1]], []]
        if case.get('long_request'):
            r3 = np.random.default_rng(case['rand'])
            for q in range(3):
                k = int(r3.integers(18, 70))
                req = r3.permutation(6000)[:k].tolist() + ids_present[:int(r3.integers(0, len(ids_present) + 1))]
                subsets.append(req)
    # requests that name a cluster more than once, as long as the id range they span (an unrequested cluster lies between)
    if len(ids_present) >= 3 and ids_present[0] >= 0 and ids_present[-1] - ids_present[0] < 40 and not long_:
        a_, c_ = ids_present[0], ids_present[-1]
        subsets = subsets + [[a_] * (c_ - a_) + [c_], [c_, a_] + [c_] * (c_ - a_ - 1)]
    # absent ids outside the range of the vector's dtype must stay absent (no wrap-around)
    p0 = ids_present[0]
    subsets = subsets + [[65536 + p0], [2 ** 32 + p0, ids_present[-1]], [-1], [p0 - 65536, -(2 ** 32) + p0]]
    # long requests (dozens of ids) that also name absent negative ids: nothing is selected for those
    if not has_neg and ids_present[-1] < 5000 and not long_:
        top = ids_present[-1]
        subsets = subsets + [list(range(-1, 40)), [-5] + list(range(36)), [-(top + 1), -top, -1] + list(range(top + 1, top + 34))]
    if has_neg:
        subsets = [s_ for s_ in subsets if all(-1 <= x for x in s_)] + [[-1, ids_present[-1]]]
    rng = np.random.default_rng(case['rot'])
    for sub in subsets:
        sub = list(sub)
        rng.shuffle(sub)
        form = len(sub) % 3          # the request as list / tuple / NumPy array
        sub_arg = sub if form == 0 else (tuple(sub) if form == 1 else np.array(sub, dtype=np.int64))
        rr = call(pa._spikes_in_clusters, sc, sub_arg)
        if not rr.ok:
            ctx.violation('raised', dict(case, subset=sub), '_spikes_in_clusters raised %r' % rr.exc, feats, tb=rr.tb)
            continue
        parts = [groups[c] for c in sorted(set(sub)) if c in groups]
        exp = np.sort(np.concatenate(parts)) if parts else np.zeros(0, int)
        d = same(rr.value, exp, dtype=False)
        if d:
            ctx.violation('selection_not_union', dict(case, subset=sub), d, feats)
    if case.get('huge_ids'):
        return          # (the table-based helpers allocate as many entries as the largest id)
    # _unique, _index_of (unsorted lookup), flatten, grouped_mean: judged by M2; failures to run are
    # violations too
    if has_neg:
        # _unique / _index_of / grouped_mean are documented for non-negative ids only
        rr = call(pa._unique, sc)
        if rr.ok and np.asarray(rr.value).tolist() != [x for x in ids_present if x >= 0]:
            ctx.violation('unique_mismatch', case, '_unique -> %r' % (np.asarray(rr.value).tolist(),), feats)
        return
    lookup = np.array(ids_present[::-1] + [max(ids_present) + 4])
    lookup = np.roll(lookup, case['rot'] % len(lookup))
    arr2 = np.stack([np.arange(n) * 0.5, -np.arange(n) ** 2.0], axis=1)
    for name, f in (('_unique', lambda: pa._unique(sc)),
                    ('_index_of', lambda: pa._index_of(sc, lookup)),
                    ('_flatten_per_cluster', lambda: pa._flatten_per_cluster(spc)),
                    ('grouped_mean', lambda: pa.grouped_mean(np.arange(n) * 1.5 + 1, sc)),
                    ('grouped_mean', lambda: pa.grouped_mean(arr2, sc)),
                    # the same values stored column-major (a transposed (columns, spikes) array)
                    ('grouped_mean', lambda: pa.grouped_mean(np.asfortranarray(arr2), sc)),
                    ('grouped_mean', lambda: pa.grouped_mean(np.ascontiguousarray(arr2.T).T, sc)),
                    # single-precision values far from zero (large clusters: the sum must not be accumulated in float32)
                    ('grouped_mean', lambda: pa.grouped_mean((1000.3 + np.cos(np.arange(n)) * 0.01).astype(np.float32), sc)),
                    # values of very different magnitude / non-finite values in a lower cluster must not leak into others
                    ('grouped_mean', lambda: pa.grouped_mean(np.where(sc == ids_present[0], [1e17, np.nan, np.inf][n % 3], np.arange(n) + 1.), sc))):
        rr = call(f)
        if not rr.ok:
            ctx.violation('raised', case, '%s raised %r' % (name, rr.exc), dict(feats, function=name), tb=rr.tb)
    # _flatten_per_cluster is the sorted union of whatever groups it is given: groups in picking order (as the spike
    # selector stores them), a single group, groups that overlap or repeat an id
    rngf = np.random.default_rng(case['rot'])
    shuffled = {k: rngf.permutation(np.asarray(v)) for k, v in spc.items()}
    k0 = sorted(shuffled)[0]
    forms = [shuffled, {k0: shuffled[k0]}, {k0: np.r_[shuffled[k0], shuffled[k0][:1]]},
             {k: (np.r_[v, shuffled[k0][:2]] if k != k0 else v) for k, v in shuffled.items()},
             # every group empty (the requested clusters have no spike): the union is empty, not an error
             {k0: np.array([], dtype=np.int64), k0 + 1: np.array([], dtype=np.int64)}, {k0: np.array([])},
             {k0: np.array([], dtype=np.int64), k0 + 1: shuffled[k0]}]
    # groups of different integer widths (a narrow first group, wider ids later) and an empty float group after an integer one
    forms.append({k0: np.array([3, 1, 2], dtype=np.uint16), k0 + 1: np.array([70000, 65536, 2], dtype=np.uint32)})
    forms.append({k0: shuffled[k0], k0 + 1: np.array([])})
    if n >= 6:
        # groups that are overlapping windows of ONE id array whose lengths add up to the length of that array (and a group
        # repeated under two keys)
        base_ = np.sort(rngf.permutation(3 * n)[:n]).astype(np.int64)
        forms.append({k0: base_[:n // 2], k0 + 1: base_[n // 2 - 2:n - 2]})
        forms.append({k0: base_[:n // 3], k0 + 1: base_[n // 3:n - n // 3], k0 + 2: base_[:n // 3]})
    for fm in forms:
        rr = call(pa._flatten_per_cluster, fm)
        exp = np.unique(np.concatenate([np.asarray(v) for v in fm.values()]))
        if not rr.ok or same(rr.value, exp, dtype=False):
            ctx.violation('flatten_mismatch' if rr.ok else 'raised', dict(case, groups={int(k): np.asarray(v).tolist()[:12] for k, v in list(fm.items())[:4]}),
                          '_flatten_per_cluster: %s' % (rr.exc if not rr.ok else same(rr.value, exp, dtype=False)), dict(feats, function='_flatten_per_cluster'), tb=rr.tb)
            break
    # driver-side second opinion on _unique / _index_of
    rr = call(pa._unique, sc)
    if rr.ok and np.asarray(rr.value).tolist() != ids_present:
        ctx.violation('unique_mismatch', case, '_unique -> %r' % (np.asarray(rr.value).tolist(),), feats)
    rr = call(pa._index_of, sc, lookup)
    if rr.ok:
        lk = lookup.tolist()
        exp = np.array([lk.index(int(v)) for v in sc.tolist()]) if not long_ else \
            np.argsort(lookup)[np.searchsorted(np.sort(lookup), sc)]
        d = same(rr.value, exp, dtype=False)
        if d:
            ctx.violation('index_of_mismatch', case, d, feats)
    # values with two trailing axes (one small matrix per spike): the mean of each cluster's matrices
    if case['rot'] % 4 == 2:
        k_ = len(ids_present)
        arr3 = np.arange(n * k_ * 2, dtype=np.float64).reshape(n, k_, 2) * 0.25 - 1
        rr = call(pa.grouped_mean, arr3, sc)
        exp3 = np.stack([arr3[np.asarray(sc) == c].mean(axis=0) for c in ids_present])
        if not rr.ok or same(rr.value, exp3, dtype=False, rtol=1e-12):
            ctx.violation('grouped_mean_mismatch' if rr.ok else 'raised', case, 'grouped_mean of values of shape %r: %s' % (
                arr3.shape, rr.exc if not rr.ok else same(rr.value, exp3, dtype=False, rtol=1e-12)), dict(feats, function='grouped_mean', ndim=3), tb=rr.tb)
    # the lookup ends with -1, as the library's own densifying code builds it (np.r_[channel_ids, -1]): -1 in the array is then
    # found at that position
    lk_m1 = np.r_[np.asarray(ids_present[::-1], dtype=np.int64), -1]
    arr_m1 = np.r_[np.asarray(sc, dtype=np.int64)[:50], -1, -1]
    rr = call(pa._index_of, arr_m1, lk_m1)
    pos_m1 = {int(v): i for i, v in enumerate(lk_m1.tolist())}
    exp_m1 = np.array([pos_m1[int(v)] for v in arr_m1.tolist()])
    if not rr.ok or same(rr.value, exp_m1, dtype=False):
        ctx.violation('index_of_mismatch' if rr.ok else 'raised', dict(case, lookup=lk_m1.tolist()[-6:]), '_index_of with a lookup ending in -1: %s' % (
            rr.exc if not rr.ok else same(rr.value, exp_m1, dtype=False)), dict(feats, function='_index_of', minus_one_in_lookup=True), tb=rr.tb)
    # a run of calls whose largest lookup id grows (and shrinks) by one from call to call
    if case['rot'] % 16 == 3:
        for top_ in list(range(1, 20)) + list(range(20, 0, -1)) + [3, 4, 5, 4, 8, 16, 17]:
            lk3 = np.arange(top_ + 1)[::-1].copy()
            arr3 = np.r_[np.arange(top_ + 1), top_, 0, -1]
            rr = call(pa._index_of, arr3, lk3)
            exp3 = np.r_[top_ - np.arange(top_ + 1), 0, top_, -1]
            if not rr.ok or same(rr.value, exp3, dtype=False):
                ctx.violation('index_of_mismatch' if rr.ok else 'raised', dict(case, lookup_top=top_), '_index_of in a run of calls, lookup %r: %s' % (
                    lk3.tolist(), rr.exc if not rr.ok else same(rr.value, exp3, dtype=False)), dict(feats, function='_index_of', call_history=True), tb=rr.tb)
                break
    # callers that run with strict floating-point settings (errors instead of warnings): means of finite values raise nothing
    if case['rot'] % 8 == 5 and len(ids_present) >= 1:
        import warnings
        vals_ = np.arange(n) * 1.5 + 1
        exp_m = np.array([vals_[np.asarray(sc) == c].mean() for c in ids_present])
        with np.errstate(all='raise'), warnings.catch_warnings():
            warnings.simplefilter('error')
            rr = call(pa.grouped_mean, vals_, sc)
        if not rr.ok or same(rr.value, exp_m, dtype=False, rtol=1e-12):
            ctx.violation('raised' if not rr.ok else 'grouped_mean_mismatch', case, 'grouped_mean under np.errstate(all="raise") and warnings as errors: %s' % (
                rr.exc if not rr.ok else same(rr.value, exp_m, dtype=False, rtol=1e-12)), dict(feats, function='grouped_mean', strict_fp=True), tb=rr.tb)
    # a lookup that is a permutation of 0..m-1 (every id once, no gap): positions, not values, are returned - also when
    # the first and the last entry are in place
    m_ = 4 + case['rot'] % 5
    rngp = np.random.default_rng([case['rot'], 7])
    mid = rngp.permutation(np.arange(1, m_ - 1))
    for lk2 in (np.r_[0, mid, m_ - 1], np.r_[0, np.arange(1, m_ - 1)[::-1], m_ - 1], rngp.permutation(m_)):
        arr_ = np.r_[(np.asarray(sc) % m_).astype(np.int64), -1]
        rr = call(pa._index_of, arr_, lk2)
        pos_ = {int(v): i for i, v in enumerate(lk2.tolist())}
        pos_[-1] = -1
        exp = np.array([pos_[int(v)] for v in arr_.tolist()])
        if not rr.ok or same(rr.value, exp, dtype=False):
            ctx.violation('index_of_mismatch' if rr.ok else 'raised', dict(case, lookup=lk2.tolist()), '_index_of with the dense lookup %r: %s' % (
                lk2.tolist(), rr.exc if not rr.ok else same(rr.value, exp, dtype=False)), dict(feats, function='_index_of', dense_lookup=True), tb=rr.tb)
            break


def _model_case(case, ctx):
    from phylib.io.model import load_model
    rng = np.random.default_rng(case['model'])
    if case.get('big_counts'):
        spec = random_spec(rng, clusters='same', dtype_ids='uint16', ns=70000, nt=3, nc=4, spikeless='none', n_samples=400000)
        st_ = np.ones(70000, dtype=spec.spike_templates.dtype)
        st_[:2000] = 0
        st_[-2000:] = 2
        spec.spike_templates = st_
        sc_ = st_.copy()
        sc_[st_ == 2] = 1            # cluster 1 = 66000 spikes of template 1 + 2000 of template 2
        spec.spike_clusters = sc_
    else:
      spec = random_spec(rng, clusters=['same', 'curated', 'absent'][int(rng.integers(0, 3))],
                       sparse_templates=bool(rng.integers(0, 2)),
                       dtype_ids=DTYPES[int(rng.integers(0, 4))], ns=int(rng.integers(10, 80)),
                       spikeless=['none', 'first', 'middle'][int(rng.integers(0, 3))])
    d = scratch_dir('c07_')
    try:
        params_ = spec.write(d)
        n_tpl = spec.n_templates
        if case['model'][-1] % 4 == 3 and not spec.curated and spec.template_ind is None:
            # a dataset without a templates file (spike-sorting output stripped down to the spikes): the templates are
            # then numbered 0 .. highest id in use
            import os
            for fn in ('templates.npy', 'similar_templates.npy', 'template_features.npy', 'template_feature_ind.npy'):
                if os.path.exists(os.path.join(d, fn)):
                    os.remove(os.path.join(d, fn))
            n_tpl = int(spec.spike_templates.max()) + 1
            ctx.cell('model', 'no_templates_file')
        r = call(load_model, params_)
        ctx.count(1, key=hkey('model', tuple(case['model'])), nontrivial=True, cell=('model',))
        if not r.ok:
            ctx.violation('raised', case, 'load_model raised %r' % r.exc, {'model': True}, tb=r.tb)
            return
        m = r.value
        st = spec.spike_templates
        sc = spec.clusters
        def scribble(v):
            # the caller's own result array; asking again must give the right answer again
            if isinstance(v, np.ndarray) and v.flags.writeable and v.size:
                v[...] = 0
                ctx.mon('returned_array_modified')
        for t in list(range(n_tpl + 1)) * 2:
            rr = call(m.get_template_spikes, as_id(t, t))
            if rr.ok:
                exp_ = np.nonzero(st == t)[0]
                if not same(rr.value, exp_, dtype=False):
                    scribble(rr.value)
                    continue
            if not rr.ok or same(rr.value, np.nonzero(st == t)[0], dtype=False):
                ctx.violation('model_query', case, 'get_template_spikes(%d) -> %r' % (
                    t, rr.value if rr.ok else rr.exc), {'model': True}, tb=rr.tb)
        for c in list(range(int(sc.max()) + 2)) * 2:
            rr = call(m.get_cluster_spikes, as_id(c, c + 1))
            if not rr.ok or same(rr.value, np.nonzero(sc == c)[0], dtype=False):
                ctx.violation('model_query', case, 'get_cluster_spikes(%d) -> %r' % (
                    c, rr.value if rr.ok else rr.exc), {'model': True}, tb=rr.tb)
            elif not np.shares_memory(rr.value, m.spike_clusters):
                scribble(rr.value)
            rr = call(m.get_template_counts, as_id(c, c + 2))
            exp = np.bincount(st[sc == c].astype(np.int64), minlength=n_tpl)
            if not rr.ok or same(rr.value, exp, dtype=False):
                ctx.violation('model_query', case, 'get_template_counts(%d) -> %r, expected %r' % (
                    c, rr.value if rr.ok else rr.exc, exp), {'model': True}, tb=rr.tb)
        # history: the in-memory assignment is updated in place (manual clustering), then queried again
        ids = np.unique(sc)
        new_id = int(sc.max()) + 2
        sel = np.isin(sc, ids[:2])
        rr = call(lambda: m.spike_clusters.__setitem__(sel, new_id))
        sc2 = sc.copy()
        sc2[sel] = new_id
        if rr.ok:
            for c in sorted(set(ids[:2].tolist() + [new_id, int(ids[-1])])):
                rr = call(m.get_cluster_spikes, as_id(c, c + 1))
                if not rr.ok or same(rr.value, np.nonzero(sc2 == c)[0], dtype=False):
                    ctx.violation('model_query', case, 'after an in-place update of spike_clusters, get_cluster_spikes(%d) -> %r' % (
                        c, rr.value if rr.ok else rr.exc), {'model': True, 'after_inplace_update': True}, tb=rr.tb)
                rr = call(m.get_template_counts, as_id(c, c + 2))
                exp = np.bincount(st[sc2 == c].astype(np.int64), minlength=n_tpl)
                if not rr.ok or same(rr.value, exp, dtype=False):
                    ctx.violation('model_query', case, 'after an in-place update, get_template_counts(%d) -> %r' % (
                        c, rr.value if rr.ok else rr.exc), {'model': True, 'after_inplace_update': True}, tb=rr.tb)
        # history: the caller replaces the assignment vector by a new array (model.spike_clusters = ...), as after a re-clustering
        sc3 = np.roll(np.asarray(sc2), 1).astype(np.int32)
        m.spike_clusters = sc3
        ctx.mon('assignment_vector_replaced')
        for c in sorted(set(np.unique(sc3).tolist()))[:4]:
            rr = call(m.get_cluster_spikes, c)
            if not rr.ok or same(rr.value, np.nonzero(sc3 == c)[0], dtype=False):
                ctx.violation('model_query', case, 'after model.spike_clusters was replaced by a new array, get_cluster_spikes(%d) -> %r' % (
                    c, rr.value if rr.ok else rr.exc), {'model': True, 'after_replacement': True}, tb=rr.tb)
                break
            rr = call(m.get_template_counts, c)
            exp = np.bincount(st[sc3 == c].astype(np.int64), minlength=n_tpl)
            if not rr.ok or same(rr.value, exp, dtype=False):
                ctx.violation('model_query', case, 'after the replacement, get_template_counts(%d) -> %r' % (
                    c, rr.value if rr.ok else rr.exc), {'model': True, 'after_replacement': True}, tb=rr.tb)
                break
        call(m.close)
    finally:
        shutil.rmtree(d, ignore_errors=True)
