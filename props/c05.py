"""C05 - Template records are aligned with their channel list (dense and sparse storage)."""
import shutil

import numpy as np

from gen.dataset import random_spec
from ref import templates as rt
from vmon.core import as_id, call, hkey, scratch_dir

ID = 'C05'
LEVEL = 'exploration'
MONITORS = ('M2', 'M6')
ANCHORS = ['phylib.io.model:TemplateModel._find_best_channels', 'phylib.io.model:get_closest_channels',
           'phylib.io.model:TemplateModel._get_template_dense', 'phylib.io.model:TemplateModel._get_template_sparse',
           'phylib.io.model:TemplateModel._unwhiten', 'phylib.io.model:TemplateModel.get_template',
           'phylib.io.model:TemplateModel.get_template_channels', 'phylib.io.model:TemplateModel.get_cluster_channels']
RULE = ('Each case = one generated dataset (3/8/12/13/20 channels, 1-3 shanks far apart or interleaved on one grid, jittered or tie-prone '
        'geometry, whitening present/absent, dense or sparse templates with -1 and all-zero columns) loaded '
        'with the real load_model; for every template: get_template under (a model-level default threshold of 0.5 / 0.3 set in params.py for half of the datasets; KS2-style sparse storage with a trivial column table) thresholds {default,0,.3,.5,.7,1} (a third of the datasets hold channels at exactly half the peak amplitude and exactly flat channels) x '
        'n_closest_channels {4,12} x unwhiten {True, False, 0, 1, np.False_, np.True_} x explicit channel lists (permuted subsets, list and '
        'array), plus get_template_channels / get_template_waveforms / get_cluster_channels. Each record is '
        'judged for: distinct channels, non-increasing ptp, peak first, column j = reference (un)whitened '
        'template on channel j, amplitude[j] = ptp of column j, channel set = reference set (distance-tie '
        'relaxed). evaluations counts records. non-trivial = distinct records where the '
        'neighbourhood/shank/threshold restriction removes >= 1 channel, an explicit list is given, or a '
        'sparse record drops a column.')
RULE += ' Added classes: float32 positions with a common offset of 2e4-5e4 (distance ranking must not cancel); a channel_probe.npy table with two probes sharing shank ids.'
RULE += ' Ids are passed as Python ints or NumPy scalars of rotating integer dtypes (what iterating over np.unique(...) yields); every judged record is overwritten in place by the caller before the next request on the same model (sparse templates are requested a second time afterwards).'
RULE += ' Round 5: templates without signal (all-zero; any tied channel may be the peak); -1 entries in the middle of a sparse column-table row with left-over data; the documented positional argument order.'
RULE += ' Round 6: template_scaling in params.py (each unwhitened record carries the factor exactly once, however often it is asked for); a Kilosort-2 templates_ind.npy next to dense templates.'
RULE += ' Round 7: get_amplitudes_true / templates_channels and refused requests (unknown template, out-of-range channel, with a threshold) between the judged requests; whitening matrices and templates scaled by 1e8.'
RULE += ' Round 8: save_spikes_subset_waveforms(max_n_channels > 12) between template requests; geometries in metres / millimetres, distances compared relative to the geometry; exactly silent channels inside the neighbourhood.'
RULE += ' Round 9: one template seven orders of magnitude larger than the others.'
RULE += ' Round 11: datasets shipping only the inverse whitening matrix.'
RULE += ' Round 12: the caller writes into model.wm of an unwhitened dataset before the requests.'
RULE += ' Round 13: a constant non-zero stored column in sparse templates.'
EXHAUSTIVE = {'quick': False, 'thorough': False}
FLOORS = {'quick': {'evaluations': 15000, 'distinct_nontrivial': 8000},
          'thorough': {'evaluations': 80000, 'distinct_nontrivial': 30000}}
ASSUMPTIONS = ['distance ties: any channel set containing all strictly closer channels and only channels at '
               'most as far as the k-th is accepted; equal amplitudes only need non-increasing order',
               'values compared with rtol 1e-5 (float32 pipeline)']
NSHARDS = 16
NCS = [3, 8, 12, 13, 20]


def plan(tier, seed):
    n = 320 if tier == 'quick' else 4000
    return [{'shard': i, 'n': NSHARDS, 'seed': seed, 'cases': n // NSHARDS} for i in range(NSHARDS)]


def run_shard(desc, ctx):
    for i in range(desc['cases']):
        run_case({'seed': [desc['seed'], desc['shard'], i]}, ctx)


def _scribble(rec, ctx):
    """The caller owns what it was given: overwrite the arrays of a judged record in place. Later requests on the
    same model (same template, other options) are judged as usual and must not be affected."""
    for name in ('template', 'amplitude', 'channel_ids'):
        a = getattr(rec, name, None)
        if isinstance(a, np.ndarray) and a.flags.writeable and a.size:
            a[...] = a[::-1].copy() if a.ndim == 1 else 0
            ctx.mon('returned_record_modified')


def run_case(case, ctx):
    from phylib.io.model import load_model
    rng = np.random.default_rng(case['seed'])
    nc = NCS[int(rng.integers(0, 5))]
    sparse = rng.random() < 0.3
    opts = dict(nc=nc, shanks=int(rng.integers(0, 4)), wm=bool(rng.random() < 0.75), sparse_templates=sparse,
                nt=int(rng.integers(2, 6)), ties=bool(rng.random() < 0.3),
                clusters=['same', 'curated'][int(rng.integers(0, 2))] if not sparse else 'same',
                tnloc=int(rng.integers(2, 7)), ncdat_extra=0, exact_amps=bool(rng.random() < 0.35), interleave=bool(rng.random() < 0.4))
    opts.update(dtype_amps=['float64', 'float32'][int(rng.integers(0, 2))],
                dtype_templates=['float32', 'float32', 'float64'][int(rng.integers(0, 3))],
                dtype_feat=['float32', 'float64'][int(rng.integers(0, 2))])
    opts['sparse_identity'] = bool(sparse and rng.random() < 0.35)
    if rng.random() < 0.3:
        opts.update(pos_offset=float(rng.choice([2e4, 5e4])), dtype_pos='float32', ties=False)   # large absolute float32 coordinates
    opts['probes'] = bool(rng.random() < 0.3)       # a probe table must not influence the channel choice (shank only)
    if opts['wm'] and case['seed'][-1] % 6 == 2:
        opts['wm_scale'] = 1e8
    if opts['wm'] and case['seed'][-1] % 8 == 5:
        opts['wmi_only'] = True          # the dataset ships whitening_mat_inv.npy only
    if case['seed'][-1] % 7 == 3:
        opts.update(pos_scale=1e-6, ties=False)          # a probe described in metres
    if not sparse and case['seed'][-1] % 5 == 1:
        opts.update(raw='int16', n_samples=200, rate=100.)     # with raw data: an export of spike waveforms happens in between
    if sparse:
        opts['mid_pad'] = 0.4
    else:
        opts['flat_template'] = bool(rng.random() < 0.25)       # a template without any signal (all zero / all NaN in the file)
    spec = random_spec(rng, **opts)
    if case['seed'][-1] % 4 == 2:
        # one template seven orders of magnitude larger than the others (what counts as 'no signal' is per template)
        spec.templates[int(rng.integers(0, spec.n_templates))] *= spec.templates.dtype.type(1e7)
        opts['one_huge_template'] = True
    if sparse and case['seed'][-1] % 6 == 4 and spec.templates.shape[2] >= 2:
        # a stored column that is constant but not zero (a baseline offset): it carries signal
        spec.templates[int(rng.integers(0, spec.n_templates)), :, 1] = spec.templates.dtype.type(0.7)
    if case['seed'][-1] % 4 == 1:
        spec.notes['template_scaling'] = [2.5, 0.5][case['seed'][-1] % 8 == 1]      # every unwhitened waveform carries this factor, once
    if case['seed'][-1] % 3 == 1:
        spec.notes['ks2_templates_ind'] = True
    thr_default = [None, None, 0.5, 0.3][int(rng.integers(0, 4))]
    if thr_default is not None:
        spec.notes['amplitude_threshold'] = thr_default      # model-level default set in params.py
    opts['thr_default'] = thr_default
    d = scratch_dir('c05_')
    desc = {'seed': case['seed'], 'opts': opts}
    try:
        r = call(load_model, spec.write(d))
        if not r.ok:
            ctx.count(1)
            ctx.violation('load_raised', desc, 'load_model raised %r' % r.exc, {'sparse': sparse}, tb=r.tb)
            return
        m = r.value
        try:
            if sparse:
                _sparse(m, spec, desc, ctx, rng)
            else:
                _dense(m, spec, desc, ctx, rng)
        finally:
            call(m.close)
    finally:
        shutil.rmtree(d, ignore_errors=True)


def _report(ctx, desc, req, problems, base):
    for kind, msg in problems:
        ctx.violation(kind, dict(desc, request=req), '%s: %s' % (req, msg), dict(base, kind=kind))


def _dense(m, spec, desc, ctx, rng):
    nc = spec.n_channels
    scaling = float(spec.notes.get('template_scaling') or 1.0)
    if spec.wm is None and spec.wmi_file is None and desc['seed'][-1] % 2 == 0 and isinstance(getattr(m, 'wm', None), np.ndarray) and m.wm.flags.writeable:
        # a dataset that is not whitened: the caller scribbles into the (identity) matrix it was handed; unwhitening such a
        # dataset still changes nothing
        m.wm[...] = m.wm * 3 + 1
        ctx.mon('identity_whitening_matrix_written_by_caller')
    if spec.raw is not None:
        # a waveform export on more channels than a template keeps must not change later template records
        r0 = call(m.get_template, 0)
        call(m.save_spikes_subset_waveforms, max_n_spikes_per_template=2, max_n_channels=nc + 2)
        r1 = call(m.get_template, 0)
        ctx.mon('export_between_requests')
        if r0.ok and r1.ok and np.asarray(r0.value.channel_ids).tolist() != np.asarray(r1.value.channel_ids).tolist():
            ctx.violation('wrong_channel_set', dict(desc, request={'t': 0, 'after': 'save_spikes_subset_waveforms'}),
                          'template 0 lists channels %s before and %s after a waveform export' % (
                              np.asarray(r0.value.channel_ids).tolist(), np.asarray(r1.value.channel_ids).tolist()), {'storage': 'dense', 'after_export': True})
    for t in range(spec.n_templates):
        # other read-only queries and refused requests in between: none of them may change what the records are
        if t % 2 == 0:
            call(m.get_amplitudes_true)
            call(lambda: m.templates_channels)
        call(m.get_template, spec.n_templates + 5, amplitude_threshold=0.9)
        call(m.get_template, t, channel_ids=[nc + 3], amplitude_threshold=0.9)
        ctx.mon('interleaved_queries_and_refusals')
        for ncl in (4, 12):
            m.n_closest_channels = ncl
            for thr in (None, 0, .3, .5, .7, 1):
                for unw in (True, False, 0, np.False_, np.True_, 1)[:2 + 4 * (thr is None and ncl == 4)]:
                    if thr in (.3, 1) and not unw and ncl == 12:
                        continue
                    U = rt.unwhitened(spec, t, unw) * (scaling if unw else 1.0)
                    thr_eff = (desc['opts'].get('thr_default') or 0) if thr is None else thr
                    best, req_set, allowed = rt.dense_channel_sets(spec, U, thr_eff, ncl)
                    restricted = len(allowed) < nc
                    req = {'t': t, 'n_closest': ncl, 'thr': thr, 'unwhiten': repr(unw)}
                    base = {'storage': 'dense', 'explicit': False, 'restricted': restricted}
                    ctx.count(1, key=hkey(tuple(desc['seed']), t, ncl, thr, repr(unw)), nontrivial=restricted,
                              cell=('dense', 'nc%d' % nc, 'ncl%d' % ncl, 'thr%s' % thr, 'unw_%s' % type(unw).__name__))
                    kw = {'unwhiten': unw}
                    if thr is not None:
                        kw['amplitude_threshold'] = thr
                    if (t + ncl + len(kw)) % 3 == 0:
                        # the documented positional order: (template_id, channel_ids, amplitude_threshold, unwhiten)
                        r = call(m.get_template, as_id(t, t + len(kw)), None, thr, unw)
                    else:
                        r = call(m.get_template, as_id(t, t + len(kw)), **kw)
                    if not r.ok:
                        ctx.violation('raised', dict(desc, request=req), 'get_template raised %r' % r.exc,
                                      dict(base, exc=r.exc_name), tb=r.tb)
                        continue
                    rec = r.value
                    probs = rt.check_record(rec, U)
                    got = set(int(c) for c in np.asarray(rec.channel_ids).tolist())
                    if int(rec.best_channel) != best and 0 <= int(rec.best_channel) < nc:
                        # exactly tied peaks (a template without signal): judge against the peak that was chosen
                        best, req_set, allowed = rt.dense_channel_sets(spec, U, thr_eff, ncl, best=int(rec.best_channel))
                    if int(rec.best_channel) != best:
                        probs.append(('wrong_peak', 'best_channel %r, reference %d' % (rec.best_channel, best)))
                    if not (req_set <= got <= allowed):
                        probs.append(('wrong_channel_set', 'channels %s; required %s, allowed %s' % (
                            sorted(got), sorted(req_set), sorted(allowed))))
                    _report(ctx, desc, req, probs, base)
                    _scribble(rec, ctx)
        ctx.sample({'spec': spec.describe(), 't': t}, every=97)
        # explicit lists
        m.n_closest_channels = 12
        for q in range(3):
            k = int(rng.integers(1, nc + 1))
            lst = rng.permutation(nc)[:k]
            as_list = bool(q == 1)
            unw = bool(q != 2)
            U = rt.unwhitened(spec, t, unw) * (scaling if unw else 1.0)
            req = {'t': t, 'explicit': lst.tolist(), 'as_list': as_list, 'unwhiten': unw}
            base = {'storage': 'dense', 'explicit': True, 'as_list': as_list}
            ctx.count(1, key=hkey(tuple(desc['seed']), t, 'explicit', q), nontrivial=True,
                      cell=('dense', 'explicit', 'list' if as_list else 'array'))
            if q == 0:
                r = call(m.get_template, as_id(t, t + len(lst)), lst.tolist() if as_list else lst, None, unw)      # positional
            else:
                r = call(m.get_template, as_id(t, t + len(lst)), channel_ids=lst.tolist() if as_list else lst, unwhiten=unw)
            if not r.ok:
                ctx.violation('raised', dict(desc, request=req), 'get_template(explicit) raised %r' % r.exc,
                              dict(base, exc=r.exc_name), tb=r.tb)
                continue
            rec = r.value
            probs = rt.check_record(rec, U, explicit=lst)
            if [int(c) for c in np.asarray(rec.channel_ids).tolist()] != lst.tolist():
                probs.append(('wrong_channel_set', 'explicit list %s not returned as is: %s' % (
                    lst.tolist(), np.asarray(rec.channel_ids).tolist())))
            _report(ctx, desc, req, probs, base)
        # convenience accessors agree with the record
        r0 = call(m.get_template, as_id(t, t))
        r1 = call(m.get_template_channels, as_id(t, t + 1))
        r2 = call(m.get_template_waveforms, as_id(t, t + 2))
        ctx.count(1, cell=('dense', 'accessors'))
        if r0.ok and (not r1.ok or not r2.ok or not np.array_equal(r1.value, r0.value.channel_ids) or
                      not np.array_equal(r2.value, r0.value.template)):
            ctx.violation('accessor_mismatch', dict(desc, request={'t': t}),
                          'get_template_channels/_waveforms disagree with get_template', {'storage': 'dense'})
    # cluster channels = channels of the dominant template of the cluster
    st, sc = spec.spike_templates, spec.clusters
    for c in np.unique(sc).tolist():
        ids, cnt = np.unique(st[sc == c], return_counts=True)
        doms = ids[cnt == cnt.max()].tolist()
        r = call(m.get_cluster_channels, as_id(c, c + 2))
        ctx.count(1, cell=('dense', 'cluster_channels'))
        if not r.ok:
            ctx.violation('raised', dict(desc, request={'cluster': c}), 'get_cluster_channels raised %r' % r.exc,
                          {'storage': 'dense', 'exc': r.exc_name}, tb=r.tb)
            continue
        ok = False
        for tdom in doms:
            rr = call(m.get_template_channels, as_id(tdom, tdom + 3))
            if rr.ok and np.array_equal(rr.value, r.value):
                ok = True
        if not ok:
            ctx.violation('cluster_channels', dict(desc, request={'cluster': c}),
                          'get_cluster_channels(%d)=%s is not the channel list of a dominant template %s' % (
                              c, np.asarray(r.value).tolist(), doms), {'storage': 'dense'})


def _sparse(m, spec, desc, ctx, rng):
    scaling = float(spec.notes.get('template_scaling') or 1.0)
    for t in range(spec.n_templates):
        for unw in (True, False, True, False):       # second pass: after the caller wrote into the first records
            ch, W, amp = rt.sparse_record(spec, t, unw)
            if unw:
                W, amp = W * np.float32(scaling), amp * np.float32(scaling)
            dropped = len(ch) < spec.templates.shape[2]
            req = {'t': t, 'unwhiten': unw, 'sparse': True}
            base = {'storage': 'sparse', 'explicit': False}
            ctx.count(1, key=hkey(tuple(desc['seed']), t, unw, 'sparse'), nontrivial=dropped,
                      cell=('sparse', 'unw%d' % unw, 'dropped%d' % dropped))
            r = call(m.get_template, as_id(t, t + 4), unwhiten=unw)
            if not r.ok:
                ctx.violation('raised', dict(desc, request=req), 'get_template raised %r' % r.exc,
                              dict(base, exc=r.exc_name), tb=r.tb)
                continue
            rec = r.value
            probs = rt.check_record(rec, None)
            got = [int(c) for c in np.asarray(rec.channel_ids).tolist()]
            if set(got) != set(ch.tolist()) or len(got) != len(ch):
                probs.append(('wrong_channel_set', 'channels %s, expected the stored used channels %s' % (got, ch.tolist())))
            else:
                tpl = np.asarray(rec.template)
                pos = {int(c): j for j, c in enumerate(ch.tolist())}
                exp = W[:, [pos[c] for c in got]]
                if tpl.shape != exp.shape or not np.allclose(tpl, exp, rtol=1e-5, atol=1e-6):
                    probs.append(('template_columns', 'a column is not the stored template on its listed channel'))
                if int(rec.best_channel) != int(ch[int(np.argmax(amp))]):
                    probs.append(('wrong_peak', 'best_channel %r, reference %d' % (rec.best_channel, ch[int(np.argmax(amp))])))
            _report(ctx, desc, req, probs, base)
            _scribble(rec, ctx)
        ctx.sample({'spec': spec.describe(), 't': t, 'ind': spec.template_ind[t].tolist()}, every=53)
