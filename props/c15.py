"""C15 - Correlograms count exactly the spike pairs in each lag bin."""
import itertools

import numpy as np

from ref import ccg as ref
from vmon.core import call, same, hkey

ID = 'C15'
LEVEL = 'exploration'
MONITORS = ('M2', 'M6')
ANCHORS = ['phylib.stats.ccg:correlograms', 'phylib.stats.ccg:_increment',
           'phylib.stats.ccg:_diff_shifted', 'phylib.stats.ccg:_symmetrize_correlograms',
           'phylib.stats.ccg:firing_rate', 'phylib.io.array:_index_of', 'phylib.io.array:_unique']
RULE = ('quick/thorough: EVERY non-decreasing spike-sample train of length <= L on the grid 0..G x '
        'labelings over k clusters (all 2-cluster labelings; 3 clusters for length <= L-1; 4 for '
        'length <= L-2) x (bin, half-window) in {(1,0),(1,1),(2,1),(1,3),(3,2)}, sample rate and '
        'cluster-id list order (a permutation of gappy ids - small ones or, every fifth case, sparse ids up to 100000 - plus one id without spikes) rotating '
        'deterministically; plus seeded random long trains checked by a windowed pair count. '
        'cluster dtypes int64/int32/uint32/uint16 and integer or float time arrays rotate; float32 time arrays beyond sample 2**24 on an exactly representable grid; firing_rate with count products beyond 2**31. Each case checks one-sided counts (twice), the symmetrised array (4 relations), cluster_ids=None, '
        'and firing_rate. Also: three trains of > 2**14 spikes whose bulk has no neighbour inside the window (one cluster made of isolated spikes only) with dense bursts at the start / middle / very end; every bin size of 1..300 samples (thorough: ..2500) with lags that are exact multiples of the bin; call histories in one process (id lists of different dtypes with equal bytes; >= 2**16-entry results held and written to by the caller across later calls of the same shape). non-trivial = distinct (train, labels, params, id order) that has equal '
        'times or a pair exactly in the last bin of the window AND an id list that is not sorted.')
RULE += ' Round 6: whole seconds as int64 / int32 / uint64 arrays at rates 2 and 4.'
RULE += ' Round 8: non-dyadic sampling rates (10, 1000, 30000 ...) wherever time x rate, the bin and the window stay exact; first spike not at 0.'
RULE += ' Round 9: id lists that are exactly 0..n-1 with the inner ids permuted; the cluster list as a tuple.'
RULE += ' Round 10: 3000-4500 spikes on each of three consecutive samples (exact pair counts by combinatorics).'
RULE += ' Round 11: regular trains of 65536 / 65537 / 65538 / 131073 spikes (pair counts per shift around multiples of 65536).'
RULE += ' Round 13: windows of (2h + 1.5) bins.'
EXHAUSTIVE = {'quick': True, 'thorough': True}
EXHAUSTIVE_SCOPE = {'quick': 'trains L<=5 on grid 0..4 (see rule); random long trains are sampled',
                    'thorough': 'trains L<=7 on grid 0..6 (see rule); random long trains are sampled'}
FLOORS = {'quick': {'evaluations': 50000, 'distinct_nontrivial': 5000,
                    'monitors': {'M2._index_of.checked': 50000}},
          'thorough': {'evaluations': 1000000, 'distinct_nontrivial': 100000,
                       'monitors': {'M2._index_of.checked': 1000000}}}
ASSUMPTIONS = ['sample rates are powers of two and bin sizes integer sample counts, so time*rate is exact '
               '(the quantifier excludes inexact rates)',
               'spikes whose cluster is not in the supplied id list are outside the documented '
               'precondition and are not generated']

PARAMS = [(1, 0), (1, 1), (2, 1), (1, 3), (3, 2)]
RATES = [1.0, 2.0, 4.0, 10.0, 30000.0]      # (non-dyadic rates are used only for trains whose every time * rate is exact)
IDS = [3, 0, 7, 5]       # label j -> cluster id (gappy, unsorted)
IDS_BIG = [300, 7, 100000, 41]   # sparse, large ids (lookup much larger than the data)
UNUSED = 9
NSHARDS = 16


def bounds(tier):
    return (5, 4, 40, (300, 2000)) if tier == 'quick' else (7, 6, 2000, (1000, 10000))


def plan(tier, seed):
    L, G, nrand, rng_len = bounds(tier)
    return [{'shard': i, 'n': NSHARDS, 'L': L, 'G': G, 'nrand': nrand, 'rlen': list(rng_len),
             'seed': seed} for i in range(NSHARDS)]


def enum_cases(L, G):
    """Yield (samples tuple, labels tuple, k) in a fixed order."""
    for k in (1, 2, 3):
        yield (), (), k          # the empty train: every count is zero
    for n in range(1, L + 1):
        ks = [2] + ([3] if n <= L - 1 else []) + ([4] if n <= L - 2 else [])
        for train in itertools.combinations_with_replacement(range(G + 1), n):
            for k in ks:
                for labels in itertools.product(range(k), repeat=n):
                    yield train, labels, k


def run_shard(desc, ctx):
    idx = 0
    perms = {k: list(itertools.permutations(range(k))) for k in (1, 2, 3, 4)}
    for train, labels, k in enum_cases(desc['L'], desc['G']):
        for (b, h) in PARAMS:
            idx += 1
            if idx % desc['n'] != desc['shard']:
                continue
            perm = perms[k][idx // desc['n'] % len(perms[k])]
            case = {'samples': list(train), 'labels': list(labels), 'k': k, 'bin': b, 'half': h,
                    'rate': RATES[(idx // 7) % 5], 'perm': list(perm),
                    'unused_pos': (idx // 3) % (k + 1), 'windowed': False, 'bigids': idx % 5 == 0}
            run_case(case, ctx)
    # float32 time arrays late in a recording (sample numbers beyond 2**24) on an exactly representable grid
    k0s = [8944, 2 ** 21 + 5]
    for j, train in enumerate(itertools.combinations_with_replacement(range(5), 4)):
        if j % desc['n'] != desc['shard']:
            continue
        for labels in itertools.product(range(2), repeat=4):
            run_case({'samples': [1875 * (k0s[j % 2] + t) for t in train], 'labels': list(labels), 'k': 2, 'bin': 1875,
                      'half': 2, 'rate': 30000.0, 'perm': [1, 0], 'unused_pos': j % 3, 'windowed': False, 'f32': True}, ctx)
    if desc['shard'] < 3:
        run_case({'kind': 'firing_rate_big', 'counts': [[1200, 50000, 0, 3], [46341, 46341], [70000, 1, 2]][desc['shard']]}, ctx)
    # every bin size up to B with lags that are exact multiples of the bin (incl. the first lag outside the window)
    B = 300 if desc['L'] <= 5 else 2500
    for b in range(1, B + 1):
        if b % desc['n'] == desc['shard']:
            run_case({'kind': 'bin_multiples', 'bin': b, 'half': 1 + b % 4, 'rate': RATES[b % 3]}, ctx)
    # histories of calls in one process: id lists of different dtypes with equal bytes; large results kept by the
    # caller (and written to) across later calls of the same shape
    for j in range(12):
        if j % desc['n'] == desc['shard']:
            run_case({'kind': 'call_history', 'variant': j, 'seed': [desc['seed'], j]}, ctx)
    # long, mostly sparse trains (>= 2**14 spikes none of which has a neighbour inside the window, all in one cluster)
    # with dense bursts of two other clusters at the start / in the middle / at the very end
    if desc['shard'] < 3:
        rl = np.random.default_rng([desc['seed'], desc['shard'], 1515])
        n0 = int(rl.integers(2 ** 14 + 100, 21000))
        bg = np.arange(n0, dtype=np.int64) * 50
        where = [n0 * 50 + 20, (n0 // 2) * 50 + 20, -400][desc['shard']]
        burst = where + np.cumsum(rl.integers(0, 3, size=60))
        samples = np.r_[bg, burst]
        labels = np.r_[np.zeros(n0, dtype=np.int64), 1 + rl.integers(0, 2, size=60)]
        o = np.argsort(samples, kind='stable')
        samples, labels = samples[o] - samples.min(), labels[o]
        run_case({'samples': samples.tolist(), 'labels': labels.tolist(), 'k': 3, 'bin': 1, 'half': 10, 'rate': 1.0, 'perm': [2, 0, 1],
                  'unused_pos': 1, 'windowed': True, 'bigids': False}, ctx)
    # dense trains of exactly 1024 / 1025 / 2**14 / 2**14 + 1 spikes
    if 3 <= desc['shard'] < 7:
        rl = np.random.default_rng([desc['seed'], desc['shard'], 1516])
        n = [1024, 1025, 2 ** 14, 2 ** 14 + 1][desc['shard'] - 3]
        run_case({'samples': np.cumsum(rl.choice([0, 1, 1, 2, 3, 30], size=n)).tolist(), 'labels': rl.integers(0, 3, size=n).tolist(), 'k': 3,
                  'bin': 2, 'half': 4, 'rate': 2.0, 'perm': [1, 2, 0], 'unused_pos': 0, 'windowed': True, 'bigids': bool(desc['shard'] % 2)}, ctx)
    # regular trains (one spike per sample, alternating clusters) in which the number of pairs found at one shift is 65535,
    # 65536, 65537 or 2 x 65536
    if desc['shard'] in (9, 10, 11, 12):
        n_ = [65536, 65537, 65538, 131073][desc['shard'] - 9]
        run_case({'samples': list(range(n_)), 'labels': [i % 2 for i in range(n_)], 'k': 2, 'bin': 1, 'half': 1, 'rate': 1.0, 'perm': [1, 0],
                  'unused_pos': 2, 'windowed': True, 'bigids': False}, ctx)
    # thousands of spikes on a few consecutive samples: every spike has thousands of partners inside its window
    if desc['shard'] in (8, 13):
        run_case({'kind': 'dense_block', 'per_sample': [3000, 4500][desc['shard'] == 13], 'n0': [1800, 100][desc['shard'] == 13]}, ctx)
    # random long trains
    rng = np.random.default_rng([desc['seed'], desc['shard'], 15])
    for r in range(desc['nrand'] // desc['n'] + 1):
        n = int(rng.integers(desc['rlen'][0], desc['rlen'][1]))
        k = int(rng.integers(1, 5))
        gaps = rng.choice([0, 0, 1, 1, 2, 3, 5, 9], size=n)
        samples = np.cumsum(gaps).tolist()
        labels = rng.integers(0, k, size=n).tolist()
        b, h = [(1, 3), (2, 4), (3, 2), (5, 1), (1, 10), (4, 0)][int(rng.integers(0, 6))]
        case = {'samples': samples, 'labels': labels, 'k': k, 'bin': b, 'half': h,
                'rate': RATES[int(rng.integers(0, 5))], 'perm': rng.permutation(k).tolist(),
                'unused_pos': int(rng.integers(0, k + 1)), 'windowed': True, 'bigids': bool(rng.integers(0, 2))}
        run_case(case, ctx)


def _bin_multiples(case, ctx):
    from phylib.stats.ccg import correlograms
    b, h, rate = case['bin'], case['half'], case['rate']
    # lags 0, b, 2b, ..., (h+1)b between spikes of alternating clusters, plus lags one sample short of a multiple
    samples = np.array(sorted([m * b for m in range(h + 2)] + [m * b - 1 for m in range(1, h + 2)] + [0]), dtype=np.int64)
    labels = (np.arange(len(samples)) % 2).astype(np.int64)
    exp = ref.one_sided(samples.tolist(), labels.tolist(), 2, b, h)
    ctx.count(1, key=hkey('binmult', b, h, rate), nontrivial=True, cell=('bin_multiples', 'half%d' % h))
    r = call(correlograms, samples / rate, np.array([4, 2])[labels], cluster_ids=[4, 2], sample_rate=rate,
             bin_size=b / rate, window_size=2 * h * b / rate, symmetrize=False)
    if not r.ok:
        ctx.violation('raised', case, 'correlograms raised %r' % r.exc, {'bin_multiples': True}, tb=r.tb)
        return
    d = same(r.value, exp, dtype=False)
    if d:
        ctx.violation('one_sided_count_mismatch', case, 'lags that are exact multiples of a %d-sample bin: %s' % (b, d), {'bin_multiples': True})


def _call_history(case, ctx):
    from phylib.stats.ccg import correlograms, firing_rate
    v = case['variant']
    rng = np.random.default_rng(case['seed'])
    ctx.count(1, key=hkey('hist', v), nontrivial=True, cell=('call_history', 'v%d' % (v % 2)))
    if v % 2 == 0:
        # (i) two calls whose id lists are different arrays with the same bytes: [c] as int64 / [c, 0] as int32 (and int32 / int16)
        c = [5, 3, 300, 41, 7, 1][v // 2 % 6]
        wide, narrow = [('int64', 'int32'), ('int32', 'int16'), ('uint32', 'uint16')][v // 2 % 3]
        ids_a = np.array([c], dtype=wide)
        ids_b = np.frombuffer(ids_a.tobytes(), dtype=narrow).copy()      # [c, 0]
        n = 40
        samples = np.cumsum(rng.integers(0, 3, size=n)).astype(np.int64)
        sc_a = np.full(n, c, dtype=np.int64)
        sc_b = np.where(rng.random(n) < 0.5, c, 0).astype(np.int64)
        calls = [(ids_a, sc_a), (ids_b, sc_b), (ids_a.tolist(), sc_a), (ids_b, sc_b), (ids_a, sc_a)]
        for step, (ids, sc) in enumerate(calls):
            idl = [int(x) for x in (ids.tolist() if hasattr(ids, 'tolist') else ids)]
            pos = np.array([idl.index(int(x)) for x in sc.tolist()])
            exp = ref.one_sided(samples.tolist(), pos.tolist(), len(idl), 1, 2)
            r = call(correlograms, samples.astype(np.float64), sc, cluster_ids=ids, sample_rate=1., bin_size=1., window_size=4., symmetrize=False)
            d = ('raised %r' % r.exc) if not r.ok else same(r.value, exp, dtype=False)
            if d:
                ctx.violation('one_sided_count_mismatch', dict(case, step=step), 'call %d of a sequence with id lists %r (%s) / %r (%s): %s' % (
                    step, ids_a.tolist(), wide, ids_b.tolist(), narrow, d), {'history': 'aliasing_id_lists'}, tb=r.tb)
                return
            r = call(firing_rate, sc, cluster_ids=ids, bin_size=1., duration=10.)
            cnt = np.array([(sc == i).sum() for i in idl], dtype=np.float64)
            d = ('raised %r' % r.exc) if not r.ok else same(r.value, np.outer(cnt, cnt) * 0.1, dtype=False, rtol=1e-12)
            if d:
                ctx.violation('firing_rate_mismatch', dict(case, step=step), 'call %d of a sequence with byte-equal id lists: %s' % (step, d),
                              {'history': 'aliasing_id_lists'}, tb=r.tb)
                return
    else:
        # (ii) large results (>= 2**16 entries) kept by the caller across later calls of the same shape; the caller
        # also writes into a result it owns
        nid, h = 40, 50
        ids = (np.arange(nid) * 3 + 1).tolist()
        held = []
        for step in range(3):
            n = 60
            samples = np.cumsum(rng.integers(0, 4, size=n)).astype(np.int64)
            pos = rng.integers(0, 4, size=n) * (step + 1)
            sc = np.array(ids)[pos]
            exp = ref.one_sided_windowed(samples, pos, nid, 1, h)
            sym = (v // 2 + step) % 3 == 2
            r = call(correlograms, samples.astype(np.float64), sc, cluster_ids=ids, sample_rate=1., bin_size=1., window_size=2. * h, symmetrize=sym)
            if not r.ok:
                ctx.violation('raised', dict(case, step=step), 'correlograms raised %r' % r.exc, {'history': 'held_results'}, tb=r.tb)
                return
            e = ref.symmetrized(exp) if sym else exp
            d = same(r.value, e, dtype=False)
            if d:
                ctx.violation('symmetrised_mismatch' if sym else 'one_sided_count_mismatch', dict(case, step=step),
                              'call %d (same shape as earlier calls): %s' % (step, d), {'history': 'held_results'})
                return
            for (st0, arr, e0) in held:
                if same(arr, e0, dtype=False):
                    ctx.violation('earlier_result_changed', dict(case, step=step), 'the result returned by call %d changed during call %d: %s' % (
                        st0, step, same(arr, e0, dtype=False)), {'history': 'held_results'})
                    return
            if step == 1 and r.value.flags.writeable:
                r.value[...] = 7                 # the caller's own array
                e = np.full_like(e, 7)
            held.append((step, r.value, e))


def _dense_block(case, ctx):
    from phylib.stats.ccg import correlograms
    m, n0 = case['per_sample'], case['n0']
    # samples 0, 1, 2 carry m spikes each: the first n0 of cluster 7, the others of cluster 3; a sparse tail follows
    samples = np.r_[np.repeat([0, 1, 2], m), [10, 50, 90]].astype(np.int64)
    labels = np.r_[np.tile(np.r_[np.zeros(n0, int), np.ones(m - n0, int)], 3), [0, 1, 0]]
    cnt = np.zeros((100, 2), dtype=np.int64)
    np.add.at(cnt, (samples, labels), 1)
    half = 2
    exp = np.zeros((2, 2, half + 1), dtype=np.int64)
    for s1 in range(100):
        for l1 in range(2):
            if not cnt[s1, l1]:
                continue
            # same sample: pairs in train order (cluster 7 block before cluster 3 block)
            exp[l1, l1, 0] += cnt[s1, l1] * (cnt[s1, l1] - 1) // 2
            if l1 == 0:
                exp[0, 1, 0] += cnt[s1, 0] * cnt[s1, 1]
            for k in range(1, half + 1):
                if s1 + k < 100:
                    for l2 in range(2):
                        exp[l1, l2, k] += cnt[s1, l1] * cnt[s1 + k, l2]
    ids = np.array([7, 3])
    ctx.count(1, key=hkey('dense_block', m, n0), nontrivial=True, cell=('dense_block',))
    r = call(correlograms, samples.astype(np.float64), ids[labels], cluster_ids=[7, 3], sample_rate=1., bin_size=1., window_size=2. * half, symmetrize=False)
    if not r.ok:
        ctx.violation('raised', case, 'correlograms raised %r' % r.exc, {'dense_block': True}, tb=r.tb)
        return
    d = same(r.value, exp, dtype=False)
    if d:
        ctx.violation('one_sided_count_mismatch', case, '%d spikes on each of 3 consecutive samples: %s' % (m, d), {'dense_block': True})


def run_case(case, ctx):
    from phylib.stats.ccg import correlograms, firing_rate
    if case.get('kind') == 'firing_rate_big':
        # size: products of per-cluster counts beyond 2**31
        counts = case['counts']
        ids = [9, 4, 6, 2][:len(counts)]
        sc = np.concatenate([np.full(c, i, dtype=np.int32) for c, i in zip(counts, ids)])
        ctx.count(1, key=hkey('frbig', tuple(counts)), nontrivial=True, cell=('firing_rate_big',))
        r = call(firing_rate, sc, cluster_ids=ids, bin_size=0.001, duration=2000.)
        exp = np.outer(np.array(counts, dtype=np.float64), np.array(counts, dtype=np.float64)) * (0.001 / 2000.)
        if not r.ok:
            ctx.violation('raised', case, 'firing_rate raised %r' % r.exc, {'big': True}, tb=r.tb)
        else:
            d = same(r.value, exp, dtype=False, rtol=1e-9)
            if d:
                ctx.violation('firing_rate_mismatch', case, 'large counts: ' + d, {'big': True})
        return
    if case.get('kind') == 'dense_block':
        return _dense_block(case, ctx)
    if case.get('kind') == 'bin_multiples':
        return _bin_multiples(case, ctx)
    if case.get('kind') == 'call_history':
        return _call_history(case, ctx)
    samples = np.asarray(case['samples'], dtype=np.int64)
    labels = np.asarray(case['labels'], dtype=np.int64)
    k, b, h, rate = case['k'], case['bin'], case['half'], case['rate']
    perm = case['perm']
    # cluster-id list in the caller's order: position p holds the id of label perm[p]; one id
    # without any spike is inserted at unused_pos
    ids = IDS_BIG if case.get('bigids') else IDS
    if case.get('bigids') and (len(labels) + b) % 2:
        ids = [300, 7, 65535, 41]          # the largest 16-bit id
    id_list = [ids[j] for j in perm]
    id_list.insert(case['unused_pos'], UNUSED)
    pos_of_label = {j: id_list.index(ids[j]) for j in range(k)}
    lab_pos = np.array([pos_of_label[int(l)] for l in labels], dtype=np.int64)
    nC = len(id_list)
    cdt = ['int64', 'int32', 'uint32', 'uint16'][(len(labels) + b + h + k) % 4]
    if case.get('bigids') and cdt == 'uint16' and max(ids) > 65535:
        cdt = 'uint32'
    spike_clusters = np.array([ids[int(l)] for l in labels], dtype=cdt)
    if not case.get('bigids') and (len(labels) + b + k) % 5 == 0 and nC >= 4:
        # the ids are exactly 0..n-1, listed with the first and the last in place and the inner ones permuted
        inner = list(range(1, nC - 1))
        inner = inner[::-1] if (len(labels) + h) % 2 else inner[1:] + inner[:1]
        id_list = [0] + inner + [nC - 1]
        spike_clusters = np.array([id_list[int(p)] for p in lab_pos], dtype=cdt)
    times = samples / rate
    bs_ = b / rate
    if not case.get('f32') and not (np.array_equal(times * rate, samples) and bs_ * rate == b and int(rate * bs_) == b and
                                    (h == 0 or int(.5 * (2 * h * bs_) / bs_) == h)):
        rate = 2.0                      # outside the quantifier (time * rate not exact): fall back to a dyadic rate
        times = samples / rate
    if case.get('f32'):
        times = times.astype(np.float32)
        assert np.array_equal(times.astype(np.float64) * rate, samples)      # exactly representable: in the quantifier
    if rate == 1.0 and (len(labels) + h) % 2:
        times = samples.copy()              # integer times are as good as float ones when the rate is 1
    elif rate in (2.0, 4.0) and (len(labels) + b + h) % 3 == 0 and not case.get('f32'):
        # whole seconds given as an integer array at a rate other than 1 (times are seconds whatever their dtype): the
        # same train stretched by the rate, so that every count stays what it was
        samples = samples * int(rate)
        b = b * int(rate)
        times = (samples // int(rate)).astype([np.int64, np.int32, np.uint64][(len(labels) + k) % 3])
    lay = (len(labels) + 2 * h + b) % 4      # the caller's arrays: plain / read-only / strided views / both
    if lay >= 2 and len(times):
        bt, bc = np.zeros(2 * len(times), dtype=times.dtype), np.zeros(2 * len(times), dtype=spike_clusters.dtype)
        bt[::2], bc[::2] = times, spike_clusters
        times, spike_clusters = bt[::2], bc[::2]
    if lay % 2:
        times.flags.writeable = False
        spike_clusters.flags.writeable = False
    sc_before, t_before = spike_clusters.copy(), times.copy()
    bin_size = b / rate
    window = 2 * h * bin_size if h else bin_size * 0.5
    if h and (len(labels) + h + b) % 4 == 1 and rate in (1.0, 2.0, 4.0):
        window = (2 * h + 1.5) * bin_size        # a window that is no whole number of bins: half-width floor(window / 2 / bin) = h bins all the same
        assert int(.5 * window / bin_size) == h

    if case.get('windowed'):
        exp = ref.one_sided_windowed(samples, lab_pos, nC, b, h)
    else:
        exp = ref.one_sided(samples.tolist(), lab_pos.tolist(), nC, b, h)

    if len(samples) == 0:
        # empty train: zero counts for every requested id (cluster_ids=None is skipped: nothing to list)
        ctx.count(1, cell=('len0', 'k%d' % k))
        for sym in (False, True):
            r0 = call(correlograms, np.zeros(0), np.zeros(0, dtype=np.int64), cluster_ids=list(id_list), sample_rate=rate,
                      bin_size=bin_size, window_size=window, symmetrize=sym)
            if not r0.ok or np.asarray(r0.value).shape != (nC, nC, (2 * h + 1) if sym else (h + 1)) or np.asarray(r0.value).any():
                ctx.violation('empty_train', case, 'empty train: %r' % (r0.exc if not r0.ok else np.asarray(r0.value).shape,), {'empty': True}, tb=r0.tb)
        return
    diffs = np.diff(samples)
    has_tie = bool((diffs == 0).any())
    edge = bool(exp[:, :, h].sum() > 0) if h > 0 else False
    unsorted_ids = id_list != sorted(id_list)
    key = hkey(tuple(case['samples']), tuple(case['labels']), b, h, tuple(id_list), rate)
    ctx.count(1, key=key, nontrivial=(has_tie or edge) and unsorted_ids,
              cell=('len%d' % min(len(samples), 8), 'k%d' % k, 'bin%d' % b, 'half%d' % h))
    ctx.sample(case, every=997)

    feats = {'ties': has_tie, 'half': h}
    # (1) one-sided
    r = call(correlograms, times, spike_clusters, cluster_ids=list(id_list), sample_rate=rate,
             bin_size=bin_size, window_size=window, symmetrize=False)
    if not r.ok:
        ctx.violation('raised', case, 'correlograms raised %r' % r.exc, feats, tb=r.tb)
        return
    d = same(r.value, exp, dtype=False)
    if d:
        ctx.violation('one_sided_count_mismatch', case, d, feats)
    # (1b) a second identical call gives the same answer and the caller's arrays are left alone
    # (the second call uses the documented positional order)
    # ... and names the clusters in a tuple
    r1b = call(correlograms, times, spike_clusters, tuple(id_list), rate, bin_size, window, False)
    if r1b.ok and same(r1b.value, exp, dtype=False):
        ctx.violation('one_sided_count_mismatch', case, 'second identical call: ' + same(r1b.value, exp, dtype=False), dict(feats, repeat=True))
    if not (np.array_equal(spike_clusters, sc_before) and np.array_equal(times, t_before)):
        ctx.violation('inputs_modified', case, 'correlograms modified the arrays passed by the caller', feats)
    # (2) symmetrised
    r2 = call(correlograms, times, spike_clusters, cluster_ids=np.array(id_list), sample_rate=rate,
              bin_size=bin_size, window_size=window, symmetrize=True)
    if not r2.ok:
        ctx.violation('raised', case, 'correlograms(symmetrize) raised %r' % r2.exc, feats, tb=r2.tb)
    else:
        S = r2.value
        expS = ref.symmetrized(exp)
        d = same(S, expS, dtype=False)
        if d:
            ctx.violation('symmetrised_mismatch', case, d, feats)
        elif not np.array_equal(S, np.transpose(S, (1, 0, 2))[:, :, ::-1]):
            ctx.violation('symmetry_relation', case, 'C[i,j,k] != C[j,i,-k]', feats)
    # (3) default cluster list = sorted ids present
    r3 = call(correlograms, times, spike_clusters, sample_rate=rate, bin_size=bin_size,
              window_size=window, symmetrize=False)
    present = sorted(set(spike_clusters.tolist()))
    sel = [id_list.index(c) for c in present]
    if not r3.ok:
        ctx.violation('raised', case, 'correlograms(cluster_ids=None) raised %r' % r3.exc, feats,
                      tb=r3.tb)
    else:
        d = same(r3.value, exp[np.ix_(sel, sel)], dtype=False)
        if d:
            ctx.violation('default_ids_mismatch', case, d, feats)
    # (3b) firing rate with the default (sorted present) cluster list
    r3b = call(firing_rate, spike_clusters, bin_size=bin_size, duration=2.0)
    if not r3b.ok:
        ctx.violation('raised', case, 'firing_rate(cluster_ids=None) raised %r' % r3b.exc, feats, tb=r3b.tb)
    else:
        cnt = np.array([(spike_clusters == c).sum() for c in present], dtype=np.float64)
        d = same(r3b.value, np.outer(cnt, cnt) * (bin_size / 2.0), dtype=False, rtol=1e-12)
        if d:
            ctx.violation('firing_rate_mismatch', case, 'default ids: ' + d, feats)
    # (4) firing rate
    duration = float(max(1, samples[-1] - samples[0] + 1)) / rate
    r4 = call(firing_rate, spike_clusters, list(id_list), bin_size, duration) if len(samples) % 2 else \
        call(firing_rate, spike_clusters, cluster_ids=list(id_list), bin_size=bin_size, duration=duration)
    if not r4.ok:
        ctx.violation('raised', case, 'firing_rate raised %r' % r4.exc, feats, tb=r4.tb)
    else:
        d = same(r4.value, ref.firing_rate(lab_pos, nC, bin_size, duration), dtype=False,
                 rtol=1e-12)
        if d:
            ctx.violation('firing_rate_mismatch', case, d, feats)
