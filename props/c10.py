"""C10 - Saved curation state survives any save/reload history."""
import csv
import io
import itertools
import os
import shutil

import numpy as np

from gen.dataset import random_spec, curate
from ref.waveforms import window
from vmon.core import call, same, hkey, scratch_dir
from vmon import monitors

ID = 'C10'
LEVEL = 'exploration'
MONITORS = ('M1', 'M2', 'M3', 'M6')
ANCHORS = ['phylib.io.model:TemplateModel.save_spike_clusters', 'phylib.io.model:TemplateModel.save_metadata',
           'phylib.io.model:save_metadata', 'phylib.utils._misc:_write_tsv_simple',
           'phylib.io.model:TemplateModel._load_metadata', 'phylib.io.model:load_metadata',
           'phylib.utils._misc:read_tsv', 'phylib.io.model:TemplateModel.save_spikes_subset_waveforms',
           'phylib.io.model:TemplateModel._load_spike_waveforms', 'phylib.io.model:TemplateModel.close',
           'phylib.io.model:_close_memmap']
RULE = ('A history is a sequence over {save_spike_clusters(random merge/split/reassignment of the current '
        'assignment), save_metadata(field in 3 names, mapping with ints, floats incl. 1e-7 and 2.0, strings '
        'with spaces/commas/tabs/quotes, None entries), write a foreign file (valid TSV / multi-column CSV '
        'with other field names; empty; header only; binary garbage; short and long rows; no cluster_id '
        'column; cluster_info.tsv), save_spikes_subset_waveforms(n, channels, factor), close, reload} applied '
        'to the real TemplateModel of a generated dataset (KS or ALF file names, int16/float32 raw data); a '
        'dictionary reference model of the directory is stepped alongside and compared with the freshly loaded '
        'model after EVERY reload (assignments, every saved field, foreign metadata, templates, times, store '
        'waveforms vs raw windows). scripted families save / reload / save other / save again the load-time value / reload for every field and for the assignments; quick: all histories of length <= 2 over a 9-operation alphabet + seeded '
        'random histories of length <= 8; thorough: length <= 3 + more random. non-trivial = distinct '
        'histories with >= 2 saves of the same kind or a malformed file before a reload.')
RULE += ' Added classes: model loaded through a relative path with a chdir before saving; spike_clusters.npy stored as uint16 / int16 and saved ids beyond the range of that dtype; metadata values given as NumPy scalars (np.float64, np.int64, np.float32).'
RULE += ' Round 5: foreign .csv files with a column named like a saved field (read before every .tsv); field names with dots sharing a stem; datasets in which every spike belongs to one template (subset store).'
RULE += ' Round 6: foreign tables with an unnamed first column; get_waveforms on stored spikes after reload (stored channels in another order); raw files shorter than the spike train; stores with full channel rows.'
RULE += ' Round 7: ALF datasets with seconds only; get_waveforms for all stored spikes and all channels in one request.'
RULE += " Round 8: saved field names starting with 'info'; recordings of three raw files whose middle file is shorter than the waveform window."
RULE += ' Round 9: a foreign two-column cluster_quality.csv next to the saved cluster_quality.tsv; a tab-separated .csv; an unterminated quote in front of more than 128 KiB of rows.'
RULE += ' Round 10: recordings shorter than one waveform window.'
RULE += ' Round 11: a 16-byte header on each of two raw files; a comma-separated table with a tab inside a cell; a table that is a dangling symbolic link.'
RULE += ' Round 12: requests that mix stored spikes with a non-stored one lying between them (unit factor 1).'
RULE += ' Round 13: a foreign table with a summary row whose id cell is no integer.'
EXHAUSTIVE = {'quick': True, 'thorough': True}
EXHAUSTIVE_SCOPE = {'quick': 'histories of length <= 2 over the 9-operation reduced alphabet; random part sampled',
                    'thorough': 'histories of length <= 3 over the reduced alphabet; random part sampled'}
FLOORS = {'quick': {'evaluations': 650, 'distinct_nontrivial': 250},
          'thorough': {'evaluations': 5000, 'distinct_nontrivial': 2000}}
ASSUMPTIONS = ['foreign .tsv files never reuse a saved field name (glob order would decide); foreign .csv files may: CSV files are read first, so cluster_<field>.tsv overrides them unless the saved mapping is empty; empty-string and '
               'numeric-looking string values are not generated (the TSV layer cannot represent them)',
               'no operation other than reload is applied to a closed model']
NSHARDS = 16
FIELDS = ['group', 'quality', 'my note', 'ks.label', 'ks.contam', 'info_source']       # (dotted names sharing a stem)
STRS = ['good', 'mua', 'needs review', 'a,b', 'tab\there', 'say "hi"', "it's", 'é', ' lead', 'trail ', ' both ']
REDUCED = [('clusters', 1), ('clusters', 2), ('meta', 'group', 1), ('meta', 'group', 2), ('meta', 'quality', 3),
           ('foreign', 'valid_tsv'), ('foreign', 'garbage'), ('subset', 3, 2, 1.0), ('close',)]


def plan(tier, seed):
    L, nr = (2, 600) if tier == 'quick' else (3, 5000)
    return [{'shard': i, 'n': NSHARDS, 'seed': seed, 'L': L, 'nrand': nr // NSHARDS + 1} for i in range(NSHARDS)]


def run_shard(desc, ctx):
    idx = 0
    for L in range(1, desc['L'] + 1):
        for seq in itertools.product(range(len(REDUCED)), repeat=L):
            idx += 1
            if idx % desc['n'] == desc['shard']:
                run_case({'seed': [desc['seed'], 10, idx], 'ops': [list(REDUCED[i]) for i in seq], 'enum': True}, ctx)
    for i in range(desc['nrand']):
        run_case({'seed': [desc['seed'], desc['shard'], i], 'ops': None, 'enum': False}, ctx)
    # scripted families: save, reload, save something else, save again what was on disk at load time, reload
    fam = []
    for f in FIELDS:
        fam.append([['meta', f, 11], ['reload'], ['meta', f, 12], ['meta_back', f]])
        fam.append([['meta', f, 13], ['reload'], ['meta', f, 14], ['clusters', 3], ['meta_back', f], ['close']])
    fam.append([['clusters', 5], ['reload'], ['clusters', 6], ['clusters_back']])
    fam.append([['meta', 'ks.label', 21], ['meta', 'ks.contam', 22], ['reload'], ['meta', 'ks.label', 23]])
    fam.append([['meta', 'ks.contam', 24], ['reload'], ['meta', 'ks.label', 25], ['meta', 'group', 26]])
    for fk in ('csv_same_field_late', 'csv_same_field_early'):
        fld = 'quality' if fk.endswith('late') else 'my note'
        fam.append([['foreign', fk], ['reload'], ['meta', fld, 31], ['reload'], ['meta', fld, 32]])
        fam.append([['meta', fld, 33], ['foreign', fk], ['reload'], ['foreign', fk]])
    fam.append([['one_template'], ['subset', 3, 2, 1.0], ['reload'], ['subset', 2, 2, 2.0]])
    fam.append([['foreign', 'pandas_index'], ['reload'], ['meta', 'group', 41]])
    fam.append([['foreign', 'comma_tsv'], ['meta', 'quality', 42], ['reload']])
    fam.append([['foreign', 'csv_same_stem'], ['meta', 'quality', 43], ['reload']])
    fam.append([['meta', 'quality', 44], ['foreign', 'csv_same_stem'], ['foreign', 'tab_csv'], ['reload']])
    fam.append([['meta', 'group', 45], ['foreign', 'open_quote_big'], ['reload'], ['meta', 'group', 46], ['reload']])
    fam.append([['meta', 'group', 47], ['foreign', 'dangling_link'], ['reload'], ['foreign', 'csv_tab_cell'], ['reload']])
    fam.append([['foreign', 'csv_tab_cell'], ['meta', 'quality', 48], ['foreign', 'dangling_link'], ['reload']])
    fam.append([['foreign', 'summary_row'], ['meta', 'group', 49], ['reload']])
    fam.append([['clusters', 7], ['meta', 'group', 15], ['reload'], ['clusters', 8], ['meta', 'group', 16], ['clusters_back'], ['meta_back', 'group']])
    for j, ops in enumerate(fam):
        for rep in range(2):
            idx += 1
            if idx % desc['n'] == desc['shard']:
                run_case({'seed': [desc['seed'], 1010, j, rep], 'ops': ops, 'enum': True}, ctx)


def rand_mapping(rng, ids):
    m = {}
    for c in rng.permutation(np.r_[ids, ids.max() + 3])[:int(rng.integers(0, len(ids) + 2))].tolist():
        k = int(rng.integers(0, 5))
        m[int(c)] = [int(rng.integers(-5, 900)), [float(np.round(rng.normal(), 6)), 1e-7, 2.0, 1e20][int(rng.integers(0, 4))],
                     STRS[int(rng.integers(0, len(STRS)))], None, STRS[int(rng.integers(0, 3))]][k]
        if k in (0, 1) and rng.random() < 0.3:
            # NumPy scalars (e.g. a per-cluster mean) are as good as Python numbers
            m[int(c)] = [np.float64, np.float32, np.int64, np.int32][int(rng.integers(0, 4))](0.5 if k == 1 else 7) if k == 1 \
                else np.int64(m[int(c)])
    return m


def rand_ops(rng):
    ops = []
    for _ in range(int(rng.integers(1, 9))):
        k = int(rng.integers(0, 10))
        if k <= 1:
            ops.append(['clusters', int(rng.integers(0, 1 << 30))])
        elif k <= 4:
            ops.append(['meta', FIELDS[int(rng.integers(0, len(FIELDS)))], int(rng.integers(0, 1 << 30))])
        elif k <= 6:
            ops.append(['foreign', ['valid_tsv', 'valid_csv', 'empty', 'header_only', 'garbage', 'ragged', 'no_cluster_id',
                                    'cluster_info', 'csv_same_field_late', 'csv_same_field_early', 'comma_tsv', 'pandas_index',
                                    'csv_same_stem', 'tab_csv', 'open_quote_big', 'csv_tab_cell', 'dangling_link', 'summary_row'][int(rng.integers(0, 18))]])
        elif k == 7:
            ops.append(['subset', int(rng.integers(1, 6)), int(rng.integers(1, 4)), [1.0, 1, 2.5][int(rng.integers(0, 3))]])
        elif k == 8:
            ops.append(['close'])
        else:
            ops.append(['reload'])
    return ops


FOREIGN = {
    'valid_tsv': ('cluster_purity.tsv', 'cluster_id\tpurity\n0\t0.5\n2\t7\n3\tok fine\n', {'purity': {0: 0.5, 2: 7, 3: 'ok fine'}}),
    'valid_csv': ('metrics.csv', 'cluster_id,snr,label2\n0,1.5,a b\n1,,x\n4,3,\n', {'snr': {0: 1.5, 4: 3}, 'label2': {0: 'a b', 1: 'x'}}),
    'empty': ('cluster_void.tsv', '', {}),
    'header_only': ('cluster_hdr.tsv', 'cluster_id\thdr\n', {}),
    'garbage': ('cluster_bin.csv', None, {}),
    'ragged': ('cluster_ragged.tsv', 'cluster_id\trag\textra\n0\t1\n1\t2\t3\t4\n', {'rag': {0: 1, 1: 2}, 'extra': {1: 3}}),
    # CSV files are read before TSV files: a column named like a saved field is overridden by cluster_<field>.tsv,
    # whatever the file is called; without such a TSV the CSV column is the field
    'csv_same_field_late': ('manual_labels.csv', 'cluster_id,quality,other9\n0,CSV,1\n1,CSV,2\n', {'quality': {0: 'CSV', 1: 'CSV'}, 'other9': {0: 1, 1: 2}}),
    'csv_same_field_early': ('a_first.csv', 'cluster_id,my note,other8\n0,CSV,5\n2,CSV,6\n', {'my note': {0: 'CSV', 2: 'CSV'}, 'other8': {0: 5, 2: 6}}),
    'comma_tsv': ('cluster_commas.tsv', 'cluster_id,cfield\n0,1\n3,x y\n', {'cfield': {0: 1, 3: 'x y'}}),       # delimiter sniffed, not the suffix
    'pandas_index': ('cluster_pandas.tsv', '\tcluster_id\tpfield\n0\t3\tA\n1\t5\tB\n', {'': {3: 0, 5: 1}, 'pfield': {3: 'A', 5: 'B'}}),    # an unnamed index column first (pandas to_csv)
    # a foreign multi-column CSV whose name has the stem of a saved field's file (cluster_quality.csv next to cluster_quality.tsv)
    'csv_same_stem': ('cluster_quality.csv', 'cluster_id,quality,comment7\n0,CSV,c0\n1,CSV,c1\n', {'quality': {0: 'CSV', 1: 'CSV'}, 'comment7': {0: 'c0', 1: 'c1'}}),
    'tab_csv': ('cluster_tabs.csv', 'cluster_id\ttfield\n0\t1\n3\tx y\n', {'tfield': {0: 1, 3: 'x y'}}),       # legacy phy: tab-separated .csv
    # a quote that is never closed in front of more than 128 KiB of rows (the csv module gives up with its own error class)
    'open_quote_big': ('cluster_quote.tsv', 'cluster_id\tqf\n0\t"abc\n' + ''.join('%d\tvalue number %d\n' % (i, i) for i in range(1, 7000)), {}),
    # a comma-separated table with a tab inside a quoted free-text cell
    'csv_tab_cell': ('cluster_notes.csv', 'cluster_id,note5,n6\n0,"a\tb",1\n1,plain,2\n', {'note5': {0: 'a\tb', 1: 'plain'}, 'n6': {0: 1, 1: 2}}),
    # a table with a summary row whose id cell is no integer: the other rows are rows like any others
    'summary_row': ('cluster_stats.csv', 'cluster_id,notes7\n0,a\n1,b\nmean,zz\n2,c\n', {'notes7': {0: 'a', 1: 'b', 'mean': 'zz', 2: 'c'}}),
    # a table that is a symbolic link to a file that no longer exists
    'dangling_link': ('cluster_gone.tsv', 'LINK', {}),
    'no_cluster_id': ('other.csv', 'id,thing\n0,1\n1,2\n', {}),
    'cluster_info': ('cluster_info.tsv', 'cluster_id\tgroup\tquality\n0\tINFO\t999\n1\tINFO\t999\n', {}),
}


def run_case(case, ctx):
    d = scratch_dir('c10_')
    try:
        _run(case, ctx, d)
    finally:
        shutil.rmtree(d, ignore_errors=True)


def _run(case, ctx, d):
    from phylib.io.model import load_model
    rng = np.random.default_rng(case['seed'])
    raw = ['int16', 'float32'][int(rng.integers(0, 2))]
    n_samples = int(rng.integers(60, 160))
    opts = dict(names=['ks', 'alf'][int(rng.integers(0, 2))], raw=raw, n_samples=n_samples, rate=float([100., 0.05, 1. / 300][int(rng.integers(0, 3))]),
                ns=int(rng.integers(8, 40)), nt=int(rng.integers(2, 5)), nc=int(rng.integers(3, 7)), nsw=int(rng.integers(3, 6)),
                clusters=['same', 'absent', 'curated'][int(rng.integers(0, 3))], raw_parts=int(rng.integers(1, 3)),
                dtype_times=['uint64', 'int64'][int(rng.integers(0, 2))])
    if rng.random() < 0.15 and opts['clusters'] != 'absent':
        opts['dtype_ids'] = 'uint16'          # narrow on-disk id type; saved ids may exceed its range
    one_template = bool(case['ops']) and list(case['ops'][0]) == ['one_template']
    if one_template:
        opts.update(rate=0.05, n_samples=int(rng.integers(100, 160)), ns=int(rng.integers(12, 40)), clusters='same')   # >= 4 chunks of 30 samples
    if case['seed'][-1] % 11 == 8 and not one_template:
        # a recording shorter than one waveform window: every window is clipped at both ends
        opts.update(nsw=8, n_samples=int(rng.integers(4, 7)), ns=6, raw_parts=1, rate=100.)
    if case['seed'][-1] % 4 == 2 and not one_template and 'nsw' in opts and opts.get('n_samples', 0) > 20:
        opts.update(raw_offset=16, raw_parts=2, raw_ext='.bin')       # a header before the samples of each of two raw files
    spec = random_spec(rng, **opts)
    if one_template:
        # every spike belongs to one template, the other templates are unused
        spec.spike_templates[:] = int(rng.integers(0, spec.n_templates))
        spec.spike_clusters = spec.spike_templates.copy()
        case = dict(case, ops=[o for o in case['ops'][1:]])
    if case['seed'][-1] % 7 == 4 and spec.raw is not None and spec.raw.shape[0] > 40 and spec.raw_ext != '.npy':
        # three raw files, the middle one shorter than a waveform window, and a spike right on it
        n_ = spec.raw.shape[0]
        spec.raw_parts = [n_ // 2, 2, n_ - n_ // 2 - 2]
        ss_ = spec.spike_samples.copy()
        ss_[len(ss_) // 2] = n_ // 2 + 1
        spec.spike_samples = np.sort(ss_)
    if case['seed'][-1] % 10 == 6 and spec.raw is not None and spec.raw.shape[0] > 40 and not spec.raw_parts:
        # the raw file ends before the last spikes (accepted at load with a warning): they cannot be in the store
        cut = int(spec.spike_samples[len(spec.spike_samples) * 2 // 3])
        if cut > 20:
            spec.raw = spec.raw[:cut]
    if opts['names'] == 'alf' and case['seed'][-1] % 3 == 1:
        spec.alf_store_samples = False            # seconds only: the samples (hence every stored window) come from rounding them
    if case['seed'][-1] % 2 == 0:
        spec.notes['n_closest_channels'] = 2 + case['seed'][-1] % 3 % 2          # stores whose channel rows are full (no -1 padding)
    if case['seed'][-1] % 3 == 2:
        spec.notes['raw_symlink'] = True         # raw files reached through symbolic links
    wide_ids = opts.get('dtype_ids') == 'uint16'
    ops = case['ops'] if case['ops'] is not None else rand_ops(rng)
    ops = [list(o) for o in ops] + [['reload']]
    kinds = [o[0] for o in ops]
    repeated = any(kinds.count(k) >= 2 for k in ('clusters', 'subset')) or \
        any(sum(1 for o in ops if o[0] == 'meta' and o[1] == f) >= 2 for f in FIELDS)
    malformed = any(o[0] == 'foreign' and o[1] in ('empty', 'garbage', 'ragged', 'header_only', 'open_quote_big', 'dangling_link') for o in ops)
    desc = {'seed': case['seed'], 'opts': opts, 'ops': ops}
    ctx.count(1, key=hkey(tuple(case['seed']), repr(ops)), nontrivial=repeated or malformed,
              cell=('enum' if case.get('enum') else 'random', opts['names'], 'len%d' % min(len(ops), 6)))
    ctx.sample({'opts': opts, 'ops': ops}, every=13)
    f0 = {'names': opts['names']}
    params = spec.write(d)
    cwd0 = os.getcwd()
    relative = case['seed'][-1] % 4 == 1
    if relative:
        # environment: the dataset is opened through a path relative to the working directory, which changes later
        os.chdir(os.path.dirname(str(d)))
        params = os.path.join(os.path.basename(str(d)), 'params.py')
    A = spec.traces_truth()
    ref = {'clusters': spec.clusters.astype(np.int64).copy(), 'fields': {}, 'foreign': {}, 'store': None}
    r = call(load_model, params)
    if not r.ok:
        ctx.violation('load_raised', desc, 'initial load_model raised %r' % r.exc, dict(f0, exc=r.exc_name), tb=r.tb)
        return
    m = r.value
    if relative:
        os.makedirs(os.path.join(str(d), 'elsewhere'), exist_ok=True)
        os.chdir(os.path.join(str(d), 'elsewhere'))
    closed = False
    at_load = {'fields': {}, 'clusters': ref['clusters'].copy()}
    monitors.CURRENT.readers.register(m.traces, lambda A=A: A, label='model.traces')
    try:
        for i, op in enumerate(ops):
            k = op[0]
            if closed and k != 'reload':
                continue
            if k == 'clusters':
                r2 = np.random.default_rng([op[1], 1])
                new = curate(r2, ref['clusters'], int(r2.integers(1, 4)), far=70000 if wide_ids else 0)
                if wide_ids and new.max() < 65536:
                    new[np.argmax(new)] = 65536 + int(r2.integers(0, 5000))
                new = new.astype([np.int32, np.int64][op[1] % 2])
                rr = call(m.save_spike_clusters, new)
                if not rr.ok:
                    ctx.violation('save_raised', desc, 'save_spike_clusters raised %r' % rr.exc, dict(f0, exc=rr.exc_name, op=k), tb=rr.tb)
                    return
                ref['clusters'] = new.astype(np.int64)
            elif k == 'meta':
                mapping = rand_mapping(np.random.default_rng([op[2], 2]), np.unique(ref['clusters']))
                rr = call(m.save_metadata, op[1], mapping)
                if not rr.ok:
                    ctx.violation('save_raised', desc, 'save_metadata(%r, %r) raised %r' % (op[1], mapping, rr.exc),
                                  dict(f0, exc=rr.exc_name, op=k), tb=rr.tb)
                    return
                ref['fields'][op[1]] = {c: (v.item() if isinstance(v, np.generic) else v) for c, v in mapping.items() if v is not None}
            elif k == 'meta_back':
                mapping = at_load['fields'].get(op[1])
                if mapping is None:
                    continue
                rr = call(m.save_metadata, op[1], dict(mapping))
                if not rr.ok:
                    ctx.violation('save_raised', desc, 'save_metadata raised %r' % rr.exc, dict(f0, exc=rr.exc_name, op=k), tb=rr.tb)
                    return
                ref['fields'][op[1]] = dict(mapping)
            elif k == 'clusters_back':
                new = at_load['clusters'].astype(np.int32)
                rr = call(m.save_spike_clusters, new)
                if not rr.ok:
                    ctx.violation('save_raised', desc, 'save_spike_clusters raised %r' % rr.exc, dict(f0, exc=rr.exc_name, op=k), tb=rr.tb)
                    return
                ref['clusters'] = new.astype(np.int64)
            elif k == 'foreign':
                fn, text, exp = FOREIGN[op[1]]
                if text == 'LINK':
                    if not os.path.lexists(os.path.join(d, fn)):
                        os.symlink(os.path.join(d, 'no such folder', 'table.tsv'), os.path.join(d, fn))
                    ref['foreign'][fn] = exp
                    continue
                with open(os.path.join(d, fn), 'wb') as f:
                    f.write(text.encode() if text is not None else b'\xff\xfe\x00\x9c\x00garbage\n\x80\x81')
                ref['foreign'][fn] = exp
            elif k == 'subset':
                rr = call(m.save_spikes_subset_waveforms, max_n_spikes_per_template=op[1], max_n_channels=op[2], sample2unit=op[3])
                if not rr.ok:
                    ctx.violation('save_raised', desc, 'save_spikes_subset_waveforms raised %r' % rr.exc,
                                  dict(f0, exc=rr.exc_name, op=k), tb=rr.tb)
                    return
                ref['store'] = {'n': op[1], 'factor': op[3]}
            elif k == 'close':
                rr = call(m.close)
                if not rr.ok:
                    ctx.violation('save_raised', desc, 'close() raised %r' % rr.exc, dict(f0, exc=rr.exc_name, op=k), tb=rr.tb)
                    return
                closed = True
            elif k == 'reload':
                if not closed and i % 2:
                    call(m.close)
                rr = call(load_model, os.path.join(str(d), 'params.py'))
                if not rr.ok:
                    ctx.violation('load_raised', desc, 'load_model raised %r after %r' % (rr.exc, ops[:i]),
                                  dict(f0, exc=rr.exc_name, malformed=malformed), tb=rr.tb)
                    return
                m = rr.value
                closed = False
                at_load = {'fields': {k_: dict(v_) for k_, v_ in ref['fields'].items()}, 'clusters': ref['clusters'].copy()}
                monitors.CURRENT.readers.register(m.traces, lambda A=A: A, label='model.traces')
                ctx.mon('reloads_compared')
                if _compare(ctx, desc, f0, spec, ref, m, A, ops[:i]):
                    return
    finally:
        os.chdir(cwd0)
        call(m.close)


def _eq_val(a, b):
    if isinstance(b, float):
        return isinstance(a, float) and (a == b or abs(a - b) <= 1e-12 * abs(b))
    return type(a) is type(b) and a == b


def _compare(ctx, desc, f0, spec, ref, m, A, history):
    bad = []
    if desc['seed'][-1] % 2:
        from gen.poke import poke
        poke(m, ctx)

    def V(kind, msg, **kw):
        ctx.violation(kind, desc, '%s (after %r)' % (msg, history), dict(f0, **kw))
        bad.append(kind)
    dd = same(m.spike_clusters, ref['clusters'], dtype=False)
    if dd:
        V('clusters_not_last_saved', 'spike_clusters: ' + dd)
    dd = same(m.spike_templates, spec.spike_templates, dtype=False) or \
        same(m.spike_samples, spec.spike_samples, dtype=False)
    if dd:
        V('templates_or_times_changed', dd)
    md = m.metadata
    csv_fields = set(f_ for fn_, e_ in ref['foreign'].items() if fn_.endswith('.csv') for f_ in e_)
    for field, mapping in ref['fields'].items():
        if not mapping and field in csv_fields:
            continue            # an empty saved mapping defines no value: the CSV column stands (judged below)
        got = md.get(field, {})
        if set(got) != set(mapping) or not all(_eq_val(got[c], v) for c, v in mapping.items()):
            V('metadata_not_last_saved', 'metadata[%r] = %r, last saved %r' % (field, got, mapping), field='saved')
    for fn, exp in ref['foreign'].items():
        for field, mapping in exp.items():
            if ref['fields'].get(field) and fn.endswith('.csv'):
                continue           # overridden by the saved cluster_<field>.tsv (judged above)
            got = md.get(field, {})
            if set(got) != set(mapping) or not all(_eq_val(got[c], v) for c, v in mapping.items()):
                V('foreign_metadata_lost', 'metadata[%r] = %r, file %s holds %r' % (field, got, fn, mapping), field='foreign')
    for field in md:
        known = set(ref['fields']) | set(f for e in ref['foreign'].values() for f in e)
        if field not in known and md[field] and field not in ('KSLabel',):
            V('metadata_unexpected', 'unexpected metadata field %r = %r' % (field, md[field]), field='unexpected')
    if ref['store'] is not None:
        sw = m.spike_waveforms
        if sw is None:
            V('store_not_loaded', 'the exported spike-waveform subset could not be loaded back')
        else:
            sid = np.atleast_1d(np.asarray(sw.spike_ids))
            sch = np.atleast_2d(np.asarray(sw.spike_channels))
            W = np.asarray(sw.waveforms)
            nsw = spec.nsw
            if (np.diff(sid) <= 0).any() or (len(sid) and (sid.min() < 0 or sid.max() >= spec.n_spikes)):
                V('store_selection', 'store spike ids %r not strictly increasing / out of range' % sid.tolist())
            else:
                st = spec.spike_templates.astype(np.int64)
                for t in np.unique(st[sid]).tolist():
                    if (st[sid] == t).sum() > ref['store']['n']:
                        V('store_selection', 'more than %d spikes of template %d in the store' % (ref['store']['n'], t))
                ok = W.shape == (len(sid), nsw, sch.shape[1])
                if ok:
                    for i, s in enumerate(sid.tolist()):
                        for j, c in enumerate(sch[i].tolist()):
                            e = (window(A, spec.spike_samples[s], nsw, [c])[:, 0].astype(np.float64) * ref['store']['factor']
                                 if c != -1 else np.zeros(nsw))
                            if not np.array_equal(W[i, :, j], e):
                                ok = False
                                break
                        if not ok:
                            break
                if not ok:
                    V('store_waveforms', 'a store waveform differs from the raw window x factor (shape %r)' % (W.shape,))
                elif len(sid):
                    # the same through the model's accessor: the stored channels of one spike in another order, plus a stranger
                    i0 = len(sid) // 2
                    own = [c for c in sch[i0].tolist() if c != -1]
                    # every stored spike in ONE request (templates that share a peak channel rank their other channels differently)
                    allch = list(range(spec.n_channels))[::-1]
                    rw = call(m.get_waveforms, sid, np.array(allch))
                    if rw.ok and rw.value is not None and np.asarray(rw.value).shape == (len(sid), nsw, len(allch)):
                        G = np.asarray(rw.value)
                        for i, s in enumerate(sid.tolist()):
                            for j, c in enumerate(allch):
                                if c in sch[i].tolist():
                                    e = window(A, spec.spike_samples[s], nsw, [c])[:, 0].astype(np.float64) * ref['store']['factor']
                                    if not np.allclose(G[i, :, j], e, rtol=1e-6, atol=1e-6):
                                        V('store_waveforms', 'get_waveforms(all stored spikes, all channels): spike %d channel %d is not its stored window' % (s, c))
                                        break
                            else:
                                continue
                            break
                    # a request that mixes stored spikes with one that is NOT stored but lies between stored ids: the answer comes
                    # from the raw data (judged when the store carries the unit factor 1, where both sources agree)
                    inner_missing = [s_ for s_ in range(int(sid.min()) + 1, int(sid.max())) if s_ not in set(sid.tolist())]
                    if inner_missing and ref['store']['factor'] in (1, 1.0) and A is not None and spec.spike_samples.max() < A.shape[0]:
                        mix = np.array(sorted([int(sid.min()), inner_missing[len(inner_missing) // 2], int(sid.max())]))
                        rw = call(m.get_waveforms, mix, np.array(allch))
                        ctx.mon('store_mixed_requests')
                        if rw.ok and rw.value is not None and np.asarray(rw.value).shape == (3, nsw, len(allch)):
                            e_ = window(A, spec.spike_samples[int(mix[1])], nsw, allch).astype(np.float64)
                            if not np.allclose(np.asarray(rw.value)[1], e_, rtol=1e-6, atol=1e-6):
                                V('store_waveforms', 'get_waveforms(%r): spike %d is not in the store; its window must come from the raw data' % (mix.tolist(), mix[1]))
                        elif not rw.ok:
                            V('store_waveforms', 'get_waveforms on stored and not stored spikes raised %r' % (rw.exc,))
                    for req in (own[::-1], own[1:] + own[:1], own[::-1] + [c for c in range(spec.n_channels) if c not in own][:1]):
                        if not req:
                            continue
                        rw = call(m.get_waveforms, sid[i0:i0 + 1], np.array(req))
                        if not rw.ok or rw.value is None:
                            V('store_waveforms', 'get_waveforms on a stored spike raised / returned nothing: %r' % (rw.exc,))
                            break
                        got = np.asarray(rw.value)[0]
                        for j, c in enumerate(req):
                            if c in own:
                                e = window(A, spec.spike_samples[int(sid[i0])], nsw, [c])[:, 0].astype(np.float64) * ref['store']['factor']
                                if got.shape != (nsw, len(req)) or not np.allclose(got[:, j], e, rtol=1e-6, atol=1e-6):
                                    V('store_waveforms', 'get_waveforms(spike %d, channels %r): column %d is not the stored window of channel %d' % (sid[i0], req, j, c))
                                    break
    return bool(bad)
