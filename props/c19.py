"""C19 - Event dispatch follows registration order, sender filters and silencing."""
import itertools

import numpy as np

from ref.events import Registry, Progress
from vmon.core import call, hkey

ID = 'C19'
LEVEL = 'exploration'
MONITORS = ('M6',)
ANCHORS = ['phylib.utils.event:EventEmitter.connect', 'phylib.utils.event:EventEmitter.unconnect',
           'phylib.utils.event:EventEmitter.reset', 'phylib.utils.event:EventEmitter.emit',
           'phylib.utils.event:EventEmitter.silent', 'phylib.utils.event:EventEmitter.set_silent',
           'phylib.utils.event:ProgressReporter._set_value', 'phylib.utils.event:ProgressReporter.reset',
           'phylib.utils.event:ProgressReporter.increment', 'phylib.utils.event:ProgressReporter.set_complete']
RULE = ('Dispatch: EVERY operation sequence of depth <= D over a 23-operation alphabet {8 connects (plain '
        'function by name / bound method with explicit event; sender filter none or S1; last or not), '
        'unconnect(callback), unconnect(sender), unconnect(owner of a bound method), reset, '
        'set_silent(T/F), enter/exit silent() (well nested), exit silent() by an exception, 4 emits} on a '
        'fresh EventEmitter, followed by probe emits; plus seeded random histories of length <= 14 over '
        'the full alphabet (3 callbacks, 2 events, senders S1/S2 with value equality (S2 is falsy) - every other emit comes from an equal but distinct sender object -, single, args/kwargs, a callback that raises - the exception must propagate and leave the emitter usable -, a callback that emits another event from inside the dispatch, callbacks that connect / unconnect another callback of the event being dispatched - effective from the next emit on -; real event names rotate over e1/e2, position_set/action_on_done, close/on_close), a third of them '
        'through the module-level global emitter. Every callback invocation is recorded by the callback '
        'itself (id, sender, args, kwargs) and each emit is compared with a list reference machine. '
        'Progress: EVERY history of depth <= P over {increment, value=0..3, max=0..3, set_complete, '
        'reset(), reset(0..3)} on a real ProgressReporter, complete/progress events recorded from the '
        'global emitter and compared with the armed-flag reference after every operation. non-trivial = '
        'distinct histories with a last-callback registered before a plain one, an unconnect between two '
        'emits, nested silencing; progress histories with >= 2 completions or a reset after a completion.')
RULE += ' Round 5: every second sender filter is a temporary object that only the registration refers to.'
RULE += ' Round 6: every progress history of four value / maximum updates followed by any operation.'
RULE += ' Round 7: last=False / last=0 spelled out; callable senders; every progress history of depth 3 with a callback that clamps an overshoot by updating the reporter from inside the dispatch.'
RULE += ' Round 11: a callback that returns None; unconnect by what connect handed back; silent() objects created before a set_silent and entered afterwards.'
RULE += ' Round 12: a callback that emits the event it is handling (every history of depth <= 4 over a 12-operation alphabet); emits whose sender is None.'
RULE += ' Round 13: a functools.partial callback; a connect(...) decorator kept and applied after other operations.'
EXHAUSTIVE = {'quick': True, 'thorough': True}
EXHAUSTIVE_SCOPE = {'quick': 'dispatch depth 4 (23 ops), progress depth 4 (15 ops)',
                    'thorough': 'dispatch depth 5, progress depth 6'}   # quick adds every progress history of 4 value/maximum updates + 1 operation
FLOORS = {'quick': {'evaluations': 200000, 'distinct_nontrivial': 20000},
          'thorough': {'evaluations': 3000000, 'distinct_nontrivial': 300000}}
ASSUMPTIONS = ['the callbacks due from an emit are those registered when the emit is issued: a connect / unconnect made by a callback during the dispatch counts from the next emit on (an emit that changes the registry has no other well-defined "currently registered" set)',
               'set_silent is never called inside a silent() block (semantics not fixed by the statement)',
               "emit(..., single=True) with no matching callback may return [] or None",
               'the return value of an emit while silenced is not judged']
NSHARDS = 16


class Sender(object):
    """Sender with value semantics: two instances with the same name are equal (the statement says a filter
    applies when it EQUALS the emitting sender)."""
    def __init__(self, name):
        self.name = name

    def __repr__(self):
        return self.name

    def __eq__(self, other):
        return isinstance(other, Sender) and other.name == self.name

    def __hash__(self):
        return hash(self.name)

    def __len__(self):
        return 0 if self.name == 'S2' else 1      # S2 is a falsy object (an empty container is a legitimate sender)

    def __call__(self, *a, **k):                   # senders may be callable objects (classes, functions, widgets with __call__)
        return None


# real event names behind the abstract events e1 / e2 (names that contain 'on_' beyond the prefix, an event that
# is itself called 'on_close' next to 'close')
NAMES = [('e1', 'e2'), ('position_set', 'action_on_done'), ('close', 'on_close')]


class World(object):
    """Real emitter + recording callbacks + reference registry."""
    def __init__(self, use_global=False, names=0):
        self.real = dict(zip(('e1', 'e2'), NAMES[names % len(NAMES)]))
        real = self.real
        from phylib.utils import event as ev
        self.ev = ev
        if use_global:
            ev.reset()
            ev.set_silent(False)
            self.em = ev._EVENT
            self.f = {n: getattr(ev, n) for n in ('connect', 'unconnect', 'emit', 'silent', 'set_silent', 'reset')}
        else:
            self.em = ev.EventEmitter()
            self.f = {n: getattr(self.em, n) for n in ('connect', 'unconnect', 'emit', 'silent', 'set_silent', 'reset')}
        self.ref = Registry()
        self.log = []
        self.S = {'S1': Sender('S1'), 'S2': Sender('S2')}
        self.cms = []
        me = self

        class Owner(object):
            def __init__(self, tok):
                self.tok = tok

        def mk_method(event):
            def meth(self, sender, *a, **k):
                me.log.append((self.tok, sender, a, k, event))
                return ('ret', self.tok) if self.tok != 'B' else None        # (a callback without a return value: its result is None)
            meth.__name__ = 'on_' + real[event]
            return meth
        for _e in ('e1', 'e2'):
            setattr(Owner, 'on_' + real[_e], mk_method(_e))
        self.owners = {'B': Owner('B'), 'C': Owner('C')}

        def mk(tok, event):
            def f(sender, *a, **k):
                me.log.append((tok, sender, a, k, event))
                return ('ret', tok)
            f.__name__ = 'on_' + real[event]
            return f
        self.funcs = {('A', 'e1'): mk('A', 'e1'), ('A', 'e2'): mk('A', 'e2')}

        def mk_raiser(event):
            def raiser(sender, *a, **k):
                me.log.append(('R', sender, a, k, event))
                raise KeyError('callback failure')
            raiser.__name__ = 'on_' + real[event]
            return raiser
        self.funcs[('R', 'e1')] = mk_raiser('e1')
        self.funcs[('R', 'e2')] = mk_raiser('e2')

        def nested(sender, *a, **k):
            # reentrancy: a callback of e1 that itself emits e2 on the same emitter
            me.log.append(('N', sender, a, k, 'e1'))
            try:
                me.f['emit'](real['e2'], sender)
            except KeyError:
                pass
            return ('ret', 'N')
        nested.__name__ = 'on_' + real['e1']
        self.funcs[('N', 'e1')] = nested

        import functools

        def _pbase(tag, sender, *a, **k):
            me.log.append(('P', sender, a, k, 'e1'))
            return ('ret', 'P')
        # a callback without a __name__ (functools.partial): it can only be connected with an explicit event
        self.funcs[('P', 'e1')] = functools.partial(_pbase, 'tag')

        def reemit(sender, *a, **k):
            # reentrancy: a callback of e1 that emits e1 again on the same emitter (once: the inner dispatch reaches it too)
            me.log.append(('M', sender, a, k, 'e1'))
            if not getattr(me, 'in_reemit', False):
                me.in_reemit = True
                try:
                    me.f['emit'](real['e1'], sender)
                finally:
                    me.in_reemit = False
            return ('ret', 'M')
        reemit.__name__ = 'on_' + real['e1']
        self.funcs[('M', 'e1')] = reemit

        def connector(sender, *a, **k):
            # reentrancy: a callback of e1 that registers callback A for e1 while e1 is being dispatched; the
            # registration is due from the NEXT emit on
            me.log.append(('K', sender, a, k, 'e1'))
            me.f['connect'](me.funcs[('A', 'e1')], event=real['e1'])
            return ('ret', 'K')
        connector.__name__ = 'on_' + real['e1']
        self.funcs[('K', 'e1')] = connector

        def unconnector(sender, *a, **k):
            # ... and one that withdraws callback A for e1 during the dispatch (effective from the next emit on)
            me.log.append(('U', sender, a, k, 'e1'))
            me.f['unconnect'](me.funcs[('A', 'e1')])
            return ('ret', 'U')
        unconnector.__name__ = 'on_' + real['e1']
        self.funcs[('U', 'e1')] = unconnector

    def cb(self, tok, event):
        if tok in ('A', 'R', 'N', 'K', 'U', 'M', 'P'):
            return self.funcs[(tok, event)], None
        return getattr(self.owners[tok], 'on_' + self.real[event]), tok

    def apply(self, op):
        """Apply op to the real emitter and the reference. Returns None or a violation message."""
        k = op[0]
        if k == 'connect':
            _, tok, event, style, sf, last = op
            f, owner = self.cb(tok, event)
            kw = {}
            self.n_conn_all = getattr(self, 'n_conn_all', 0) + 1
            if style == 'explicit':
                kw['event'] = self.real[event]
            if sf:
                # the filter object is a temporary that only the registration refers to (filters match by equality)
                self.n_conn = getattr(self, 'n_conn', 0) + 1
                kw['sender'] = self.S[sf] if self.n_conn % 2 else Sender(sf)
            if last:
                kw['last'] = True
            elif self.n_conn_all % 3 == 1:
                kw['last'] = [False, 0][self.n_conn_all % 2]        # the flag spelled out although it is off
            if style == 'decorator':
                r = call(lambda: self.f['connect'](**kw)(f))
            else:
                r = call(self.f['connect'], f, **kw)
            if not r.ok:
                return 'connect raised %r' % r.exc
            # what connect hands back is what the caller's name is bound to from now on (@em.connect(...) def on_x ...)
            if not hasattr(self, 'handles'):
                self.handles = {}
            self.handles[(tok, event)] = r.value
            self.ref.connect(event, self.S[sf] if sf else None, (tok, event), owner, last)
        elif k == 'unconnect':
            items, ritems = [], []
            for kind, v in op[1]:
                if kind == 'cb':
                    f, _ = self.cb(v[0], v[1])
                    items.append(getattr(self, 'handles', {}).get((v[0], v[1]), f))
                    ritems.append((v[0], v[1]))
                elif kind == 'sender':
                    items.append(self.S[v])
                    ritems.append(self.S[v])
                else:
                    items.append(self.owners[v])
                    ritems.append(v)
            r = call(self.f['unconnect'], *items)
            if not r.ok:
                return 'unconnect raised %r' % r.exc
            self.ref.unconnect(ritems)
        elif k == 'reset':
            call(self.f['reset'])
            self.ref.reset()
        elif k == 'set_silent':
            if self.ref.ctx:
                return None   # guard: not inside a silent() block
            call(self.f['set_silent'], op[1])
            self.ref.set_silent(op[1])
        elif k == 'prepare_deco':
            # deco = connect(event=...) is kept in a variable and applied to a function later (other operations in between)
            self.deco = (call(lambda: self.f['connect'](event=self.real['e1'])), ('A', 'e1'))
        elif k == 'apply_deco':
            if getattr(self, 'deco', None) is not None and self.deco[0].ok:
                f_, _ = self.cb(*self.deco[1])
                r = call(self.deco[0].value, f_)
                if not r.ok:
                    return 'applying a stored connect(...) decorator raised %r' % r.exc
                self.handles = getattr(self, 'handles', {})
                self.handles[self.deco[1]] = r.value
                self.ref.connect('e1', None, self.deco[1], None, False)
                self.deco = None
        elif k == 'prepare':
            self.prepared = self.f['silent']()        # the context object is created now and entered later (state may change in between)
        elif k == 'enter':
            cm = getattr(self, 'prepared', None) or self.f['silent']()
            self.prepared = None
            r = call(cm.__enter__)
            if not r.ok:
                return 'silent().__enter__ raised %r' % r.exc
            self.cms.append(cm)
            self.ref.enter()
        elif k in ('exit', 'exit_exc'):
            if not self.cms:
                return None
            cm = self.cms.pop()
            if k == 'exit':
                call(cm.__exit__, None, None, None)
            else:
                e = KeyError('boom')
                call(cm.__exit__, KeyError, e, None)
            self.ref.exit()
        elif k == 'emit':
            _, event, s, single, args, kwargs = op
            exp = self.ref.expected_calls(event, self.S[s] if s else None, single)
            raises = any(c[0] == 'R' for c in exp)
            if raises:          # a failing callback ends the dispatch; the emitter must stay usable afterwards
                exp = exp[:[c[0] for c in exp].index('R') + 1]
            del self.log[:]
            kw = dict(kwargs)
            if single:
                kw['single'] = True
            # every other emit comes from an equal but distinct sender object
            self.n_emits = getattr(self, 'n_emits', 0) + 1
            sender_obj = (self.S[s] if self.n_emits % 2 else Sender(s)) if s else None        # (an emit without a sender object: None)
            r = call(self.f['emit'], self.real[event], sender_obj, *args, **kw)
            # registry changes made by callbacks during the dispatch count from the next emit on
            for c in self.log:
                if c[0] == 'K':
                    self.ref.connect('e1', None, ('A', 'e1'), None, False)
                elif c[0] == 'U':
                    self.ref.unconnect([('A', 'e1')])
            if not r.ok and not (raises and isinstance(r.exc, KeyError)):
                return 'emit raised %r' % r.exc
            if raises and r.ok:
                return 'the exception of a failing callback was swallowed by emit'
            got = [(c[0], c[4]) for c in self.log]
            exp_tok, nested_pos = [], set()
            for c in exp:
                exp_tok.append((c[0], event))
                if c[0] == 'N':
                    inner = self.ref.expected_calls('e2', self.S[s] if s else None, False)
                    if any(x[0] == 'R' for x in inner):
                        inner = inner[:[x[0] for x in inner].index('R') + 1]
                    for x in inner:
                        nested_pos.add(len(exp_tok))
                        exp_tok.append((x[0], 'e2'))
                if c[0] == 'M':
                    for x in self.ref.expected_calls('e1', self.S[s] if s else None, False):
                        nested_pos.add(len(exp_tok))
                        exp_tok.append((x[0], 'e1'))
            if got != exp_tok:
                return 'emit(%s, %s%s) called %r, expected %r%s' % (
                    event, s, ', single' if single else '', [g[0] for g in got], [e[0] for e in exp_tok],
                    ' (silenced)' if self.ref.silent else '')
            for i_c, c in enumerate(self.log):
                if i_c in nested_pos:
                    if c[1] is not sender_obj:
                        return 'nested emit passed another sender object'
                    continue
                if c[1] is not sender_obj or tuple(c[2]) != tuple(args) or c[3] != dict(kwargs):
                    return 'callback %s received sender/args %r %r %r, emitted %r %r' % (
                        c[0], c[1], c[2], c[3], args, kwargs)
            if not self.ref.silent and not raises:
                rets = [(('ret', c[0]) if c[0] != 'B' else None) for i_c, c in enumerate(self.log) if i_c not in nested_pos]
                if single:
                    ok = (r.value == rets[0]) if rets else (r.value in ([], None))
                else:
                    ok = r.value == rets
                if not ok:
                    return 'emit returned %r, expected %r' % (r.value, rets[0] if (single and rets) else rets)
        return None

    def finish(self):
        while self.cms:
            self.apply(('exit',))


CONNECTS_SMALL = [('connect', tok, 'e1', style, sf, last)
                  for tok, style in (('A', 'name'), ('B', 'explicit'))
                  for sf in (None, 'S1') for last in (False, True)]
SMALL = CONNECTS_SMALL + [
    ('unconnect', [('cb', ('A', 'e1'))]), ('unconnect', [('sender', 'S1')]), ('unconnect', [('owner', 'B')]),
    ('reset',), ('set_silent', True), ('set_silent', False), ('enter',), ('exit',), ('exit_exc',), ('prepare',),
    ('connect', 'K', 'e1', 'explicit', None, False), ('connect', 'U', 'e1', 'explicit', None, True),
    ('emit', 'e1', 'S1', False, (), {}), ('emit', 'e1', 'S2', False, (1,), {'k': 2}),
    ('emit', 'e1', 'S1', True, (), {}), ('emit', 'e2', 'S1', False, (), {})]
SMALL_M = [('connect', 'A', 'e1', 'name', None, False), ('connect', 'A', 'e1', 'explicit', 'S1', False), ('connect', 'B', 'e1', 'explicit', 'S2', True),
           ('connect', 'M', 'e1', 'explicit', None, False), ('connect', 'M', 'e1', 'explicit', 'S1', True), ('unconnect', [('cb', ('A', 'e1'))]),
           ('set_silent', True), ('set_silent', False), ('connect', 'P', 'e1', 'explicit', None, False), ('prepare_deco',), ('apply_deco',), ('reset',),
           ('emit', 'e1', 'S1', False, (), {}), ('emit', 'e1', None, False, (3,), {}), ('emit', 'e1', 'S2', True, (), {}), ('emit', 'e1', None, True, (), {})]
PROBES = [('emit', 'e1', 'S1', False, (7,), {'x': 1}), ('emit', 'e1', 'S2', False, (), {}),
          ('emit', 'e1', 'S1', True, (), {}), ('emit', 'e2', 'S2', False, (), {})]

PROG_OPS = [('increment', None), ('set_complete', None), ('reset', None)] + \
    [('value', v) for v in range(4)] + [('max', v) for v in range(4)] + [('reset', v) for v in range(4)]


def plan(tier, seed):
    D, P, nr = (4, 4, 20000) if tier == 'quick' else (5, 6, 500000)
    return [{'shard': i, 'n': NSHARDS, 'seed': seed, 'D': D, 'P': P, 'nrand': nr // NSHARDS} for i in range(NSHARDS)]


def run_shard(desc, ctx):
    sh, ns = desc['shard'], desc['n']
    idx = 0
    for depth in range(1, desc['D'] + 1):
        for seq in itertools.product(range(len(SMALL)), repeat=depth):
            idx += 1
            if idx % ns == sh:
                run_case({'kind': 'dispatch', 'ops': [SMALL[i] for i in seq], 'global': False, 'names': idx // ns}, ctx)
    # a callback that emits the event it is handling; emits without a sender object (every history of depth <= 4 over a small alphabet)
    for depth in range(1, 5):
        for seq in itertools.product(range(len(SMALL_M)), repeat=depth):
            if depth == 4 and (seq[0] * 7 + seq[1] * 3 + seq[2] + seq[3]) % 3:
                continue          # (depth 4: every third history)
            idx += 1
            if idx % ns == sh:
                run_case({'kind': 'dispatch', 'ops': [SMALL_M[i] for i in seq], 'global': False, 'names': idx // ns}, ctx)
    rng = np.random.default_rng([desc['seed'], sh, 19])
    for _ in range(desc['nrand']):
        run_case({'kind': 'dispatch', 'ops': random_ops(rng), 'global': bool(_ % 3 == 0), 'names': _ // 3}, ctx)
    for depth in range(1, desc['P'] + 1):
        for seq in itertools.product(range(len(PROG_OPS)), repeat=depth):
            idx += 1
            if idx % ns == sh:
                run_case({'kind': 'progress', 'ops': [PROG_OPS[i] for i in seq]}, ctx)
    for seq in itertools.product(range(len(PROG_OPS)), repeat=3):
        idx += 1
        if idx % ns == sh:
            run_case({'kind': 'progress', 'ops': [PROG_OPS[i] for i in seq], 'clamp': True}, ctx)
    # longer progress histories: four value / maximum updates followed by any operation (completion, value below the
    # maximum, maximum lowered, ... need five steps)
    if desc['P'] < 5:
        setters = [o for o in PROG_OPS if o[0] in ('value', 'max')]
        for seq in itertools.product(range(len(setters)), repeat=4):
            for last in PROG_OPS:
                idx += 1
                if idx % ns == sh:
                    run_case({'kind': 'progress', 'ops': [setters[i] for i in seq] + [last]}, ctx)


def random_ops(rng):
    ops = []
    depth = 0
    for _ in range(int(rng.integers(2, 15))):
        k = int(rng.integers(0, 14))
        if k <= 4:
            tok = 'ABCRNKU'[int(rng.integers(0, 7))] if rng.random() < 0.5 else 'ABC'[int(rng.integers(0, 3))]
            style = ['name', 'explicit', 'decorator'][int(rng.integers(0, 3))] if tok not in 'RNKU' else 'explicit'
            ops.append(('connect', tok, ['e1', 'e2'][int(rng.integers(0, 2))] if tok not in 'NKU' else 'e1', style,
                        [None, None, 'S1', 'S2'][int(rng.integers(0, 4))], bool(rng.integers(0, 3) == 0)))
        elif k == 5:
            items = []
            for _j in range(int(rng.integers(1, 3))):
                t = int(rng.integers(0, 3))
                if t == 0:
                    items.append(('cb', ('ABCR'[int(rng.integers(0, 4))], ['e1', 'e2'][int(rng.integers(0, 2))])))
                elif t == 1:
                    items.append(('sender', ['S1', 'S2'][int(rng.integers(0, 2))]))
                else:
                    items.append(('owner', 'BC'[int(rng.integers(0, 2))]))
            ops.append(('unconnect', items))
        elif k == 6:
            ops.append(('reset',) if rng.random() < 0.3 else ('set_silent', bool(rng.integers(0, 2))))
        elif k == 7 and depth < 3:
            ops.append(('enter',))
            depth += 1
        elif k == 8 and depth > 0:
            ops.append(('exit',) if rng.random() < 0.7 else ('exit_exc',))
            depth -= 1
        else:
            ops.append(('emit', ['e1', 'e2'][int(rng.integers(0, 2))], ['S1', 'S2'][int(rng.integers(0, 2))],
                        bool(rng.integers(0, 4) == 0), tuple(rng.integers(0, 5, size=int(rng.integers(0, 3))).tolist()),
                        {'kw': int(rng.integers(0, 9))} if rng.random() < 0.4 else {}))
    return ops


def _norm(op):
    op = tuple(op)
    if op[0] == 'unconnect':
        return ('unconnect', [(k, tuple(v) if isinstance(v, list) else v) for k, v in op[1]])
    if op[0] == 'emit':
        return ('emit', op[1], op[2], op[3], tuple(op[4]), dict(op[5]))
    if op[0] == 'connect' and isinstance(op[1], list):
        return tuple(op)
    return op


def run_case(case, ctx):
    if case['kind'] == 'progress':
        return _progress(case, ctx)
    ops = [_norm(o) for o in case['ops']]
    kinds = [o[0] for o in ops]
    # non-trivial structure
    last_before_plain = False
    seen_last = False
    for o in ops:
        if o[0] == 'connect':
            if o[5]:
                seen_last = True
            elif seen_last:
                last_before_plain = True
    emits = [i for i, k in enumerate(kinds) if k == 'emit']
    unc_between = any(kinds[i] == 'unconnect' for i in range(emits[0], emits[-1])) if len(emits) >= 2 else False
    nested = False
    dpt = 0
    for k in kinds:
        if k == 'enter':
            dpt += 1
            nested = nested or dpt >= 2
        elif k in ('exit', 'exit_exc') and dpt:
            dpt -= 1
    nontriv = last_before_plain or unc_between or nested
    ctx.count(1, key=hkey(repr(ops), case['global'], case.get('names', 0) % len(NAMES)), nontrivial=nontriv,
              cell=('dispatch', 'len%d' % min(len(ops), 6), 'global' if case['global'] else 'fresh'))
    if nontriv:
        ctx.sample({'ops': ops}, every=3001)
    w = World(use_global=case['global'], names=case.get('names', 0))
    feats = {'kind': 'dispatch'}
    silent_nested = False
    try:
        for i, op in enumerate(ops + [None]):
            if op is None:
                # probes inside whatever context is open, then after leaving all contexts
                for p in PROBES:
                    msg = w.apply(p)
                    if msg:
                        break
                if not msg:
                    w.finish()
                    for p in PROBES:
                        msg = w.apply(p)
                        if msg:
                            break
            else:
                msg = w.apply(op)
            if msg:
                silent_ctx = any(k in ('enter', 'exit', 'exit_exc') for k in kinds)
                ctx.violation('dispatch_mismatch', {'kind': 'dispatch', 'ops': ops, 'global': case['global'], 'names': case.get('names', 0)},
                              'after %d operations: %s' % (i, msg),
                              dict(feats, uses_silent_context=silent_ctx))
                break
    finally:
        w.finish()
        if case['global']:
            w.ev.reset()
            w.ev.set_silent(False)


def _progress(case, ctx):
    from phylib.utils import event as ev
    ops = [tuple(o) for o in case['ops']]
    ev.reset()
    ev.set_silent(False)
    pr = ev.ProgressReporter()
    other = ev.ProgressReporter()
    log = {'complete': 0, 'progress': []}

    def on_complete(sender, **kw):
        log['complete'] += 1

    def on_progress(sender, value, value_max, **kw):
        log['progress'].append((value, value_max))
    ev.connect(on_complete, sender=pr)
    ev.connect(on_progress, sender=pr)
    clamp = bool(case.get('clamp'))
    if clamp:
        # reentrancy: a progress callback that clamps an overshoot by updating the reporter from inside the dispatch;
        # the crossing is still announced exactly once
        def on_progress_clamp(sender, value, value_max, **kw):
            if value > value_max:
                pr.value = value_max
        ev.connect(on_progress_clamp, event='progress', sender=pr)
    ref = Progress()
    n_after_completion_reset = False
    msg = None
    for i, (op, arg) in enumerate(ops):
        done_before = ref.completes
        del log['progress'][:]
        if op == 'increment':
            r = call(pr.increment)
        elif op == 'value':
            r = call(setattr, pr, 'value', arg)
        elif op == 'max':
            r = call(setattr, pr, 'value_max', arg)
        elif op == 'set_complete':
            r = call(pr.set_complete)
        else:
            r = call(pr.reset, arg) if arg is not None else call(pr.reset)
            if done_before:
                n_after_completion_reset = True
        if not r.ok:
            msg = '%s(%r) raised %r' % (op, arg, r.exc)
            break
        nprog = ref.op(op, arg)
        if clamp and nprog and ref.value > ref.max:
            ref.op('value', ref.max)          # the nested update made by the clamping callback
            nprog = None
        if log['complete'] != ref.completes:
            msg = 'after %r: %d completions announced, expected %d' % (ops[:i + 1], log['complete'], ref.completes)
            break
        if nprog is not None and (len(log['progress']) != nprog or (nprog and log['progress'][-1] != (ref.value, ref.max))):
            msg = 'after %r: progress events %r, expected %d x %r' % (ops[:i + 1], log['progress'], nprog,
                                                                      (ref.value, ref.max))
            break
        if (pr.value, pr.value_max) != (ref.value, ref.max):
            msg = 'value/value_max %r != %r' % ((pr.value, pr.value_max), (ref.value, ref.max))
            break
    ctx.count(1, key=hkey('progress', repr(ops), clamp), nontrivial=ref.completes >= 2 or n_after_completion_reset,
              cell=('progress', 'len%d' % len(ops)))
    if ref.completes >= 2:
        ctx.sample({'progress_ops': ops}, every=2503)
    if msg:
        ctx.violation('progress_mismatch', {'kind': 'progress', 'ops': ops}, msg,
                      {'kind': 'progress', 'has_reset': any(o[0] == 'reset' for o in ops)})
    ev.reset()
