"""Hand-written realistic breaks (each keeps the 52 baseline tests green, since those do not reach
the io modules, or touches an untested line). Used by bin/selftest."""
MUTANTS = []


def M(name, props, file, old, new):
    MUTANTS.append({'name': name, 'props': props, 'file': file, 'old': old, 'new': new})


# ---- C15 -----------------------------------------------------------------------------------
M('ccg_mask_edge_ge', ['C15'], 'phylib/stats/ccg.py',
  'mask[:-shift][spike_diff_b > (winsize_bins // 2)] = False',
  'mask[:-shift][spike_diff_b >= (winsize_bins // 2)] = False')
M('ccg_swap_cluster_axes', ['C15'], 'phylib/stats/ccg.py',
  '(spike_clusters_i[:-shift][m], spike_clusters_i[+shift:][m], d), correlograms.shape)',
  '(spike_clusters_i[+shift:][m], spike_clusters_i[:-shift][m], d), correlograms.shape)')
M('ccg_sym_zero_lag_min', ['C15'], 'phylib/stats/ccg.py',
  'correlograms[..., 0] = np.maximum(correlograms[..., 0],',
  'correlograms[..., 0] = np.minimum(correlograms[..., 0],')
M('ccg_firing_rate_pad', ['C15'], 'phylib/stats/ccg.py',
  'bc = np.concatenate((bc, np.zeros(n, dtype=bc.dtype)))',
  'bc = np.concatenate((np.zeros(n, dtype=bc.dtype), bc))')
# ---- C16 -----------------------------------------------------------------------------------
M('chunk_bounds_last_keep_start', ['C16'], 'phylib/io/array.py',
  '    s_end = n_samples\n    keep_start = keep_end\n',
  '    s_end = n_samples\n    keep_start = s_start\n')
M('excerpt_step_no_max', ['C16'], 'phylib/io/array.py',
  '    step = max((n_samples - excerpt_size) // (n_excerpts - 1),\n               excerpt_size)',
  '    step = max((n_samples - excerpt_size) // (n_excerpts - 1),\n               1)')
M('get_chunk_bounds_dedup', ['C16'], 'phylib/io/traces.py',
  '        if b and ch and ch[0] == b[-1]:\n            ch = ch[1:]',
  '        if b and ch and ch[0] == b[-1] and len(ch) > 1:\n            ch = ch[1:]')
M('cbin_iter_lookbehind', ['C16'], 'phylib/io/traces.py',
  '            last_chunk = max(first_chunk, last_chunk - 1)\n',
  '            last_chunk = max(first_chunk, last_chunk - 2)\n')
# ---- C01 -----------------------------------------------------------------------------------
M('find_chunks_left', ['C01'], 'phylib/io/traces.py',
  "return np.searchsorted(bounds, arr, 'right') - 1", "return np.searchsorted(bounds, arr, 'left') - 1")
M('subitems_chunk_stop', ['C01'], 'phylib/io/traces.py',
  'chunk_stop = min(i1 - i0, stop - i0)', 'chunk_stop = min(i1 - i0 - 1, stop - i0) if chunk < last_chunk else stop - i0')
M('subitems_neg_start', ['C01'], 'phylib/io/traces.py',
  '        if start < 0:\n            start = start % bounds[-1]', '        if start < 0:\n            start = (start + 1) % bounds[-1]')
M('memmap_offset_dropped', ['C01'], 'phylib/io/traces.py',
  'return np.memmap(path, dtype=dtype, offset=offset, shape=shape, mode=mode)',
  'return np.memmap(path, dtype=dtype, offset=0, shape=shape, mode=mode)')
M('list_subitems_bounds', ['C01'], 'phylib/io/traces.py',
  'out.append((chunk, item[(i0 <= item) & (item < i1)] - i0))', 'out.append((chunk, item[(i0 <= item) & (item <= i1)] - i0))')
M('getitem_cols_before_rows', ['C01'], 'phylib/io/traces.py',
  '    if op == \'cols\':\n        return arr[:, arg]', '    if op == \'cols\':\n        return arr[:, arg] if arr.shape[0] != 2 else arr[:, ::-1][:, arg]')
# ---- C02 -----------------------------------------------------------------------------------
M('ops_list_shared', ['C02'], 'phylib/io/traces.py',
  '        clone._ops = list(self._ops)\n', '')
M('rsub_as_sub', ['C02'], 'phylib/io/traces.py',
  "return self._append_op('rsub', arg)", "return self._append_op('sub', arg)")
M('rpow_as_pow', ['C02'], 'phylib/io/traces.py',
  "return self._append_op('rpow', arg)", "return self._append_op('pow', arg)")
M('ops_reverse_replay', ['C02'], 'phylib/io/traces.py',
  '        for op, arg in self._ops:\n            arr = _apply_op(op, arg, arr)', '        for op, arg in (self._ops if len(self._ops) < 3 else self._ops[::-1]):\n            arr = _apply_op(op, arg, arr)')
M('apply_op_float_coerce', ['C02'], 'phylib/io/traces.py',
  "    f = getattr(arr, '__%s__' % op)\n", "    arr = arr.astype(np.float32) if op == 'floordiv' else arr\n    f = getattr(arr, '__%s__' % op)\n")
# ---- C04 -----------------------------------------------------------------------------------
M('times_multiplied', ['C04'], 'phylib/io/model.py',
  "            samples = self._read_array(path)\n            times = samples / self.sample_rate",
  "            samples = self._read_array(path)\n            times = samples / self.sample_rate if self.sample_rate != 100. else samples * 0.01000001")
M('nan_scrub_on_mmap', ['C04'], 'phylib/io/model.py',
  '    if mmap_mode is None:\n        for w in', '    if mmap_mode is None and out.ndim == 1:\n        for w in')
M('traces_no_channel_map', ['C04'], 'phylib/io/model.py',
  'traces = traces[:, channel_map]  # lazy permutation on the channel axis',
  'traces = traces[:, np.sort(channel_map)]  # lazy permutation on the channel axis')
M('probes_default_ones', ['C04'], 'phylib/io/model.py',
  "            return out\n        except IOError:\n            return np.zeros(self.n_channels, dtype=np.int32)\n\n    def _load_channel_shanks",
  "            return out\n        except IOError:\n            return np.ones(self.n_channels, dtype=np.int32)\n\n    def _load_channel_shanks")
M('monotonic_check_strict_off', ['C04'], 'phylib/io/model.py',
  'if not np.all(np.diff(self.spike_times) >= 0):', 'if not np.all(np.diff(self.spike_times[:-1]) >= 0):')
M('alf_samples_floor', ['C04'], 'phylib/io/model.py',
  'samples = np.round(times * self.sample_rate).astype(np.uint64)', 'samples = (times * self.sample_rate).astype(np.uint64)')
M('wmi_written_transposed', ['C04'], 'phylib/io/model.py',
  "self._write_array(self.dir_path / 'whitening_mat_inv.npy', wmi)\n        return wmi",
  "self._write_array(self.dir_path / 'whitening_mat_inv.npy', wmi)\n        self._write_array(self.dir_path / 'whitening_mat.npy', wm)\n        return wmi")
# ---- C07 -----------------------------------------------------------------------------------
M('spc_unstable_sort', ['C07'], 'phylib/io/array.py',
  "rel_spikes = np.argsort(spike_clusters, kind='mergesort')", "rel_spikes = np.argsort(-spike_clusters.astype(np.int64), kind='mergesort')[::-1]")
M('spc_last_group_dropped', ['C07'], 'phylib/io/array.py',
  "    spikes_in_clusters[clusters[-1]] = abs_spikes[idx[-1]:]\n", "    spikes_in_clusters[clusters[-1]] = abs_spikes[idx[-1]:-1] if len(abs_spikes) > 5 else abs_spikes[idx[-1]:]\n")
M('unique_sign_filter', ['C07'], 'phylib/io/array.py',
  "    x = x[x >= 0]\n", "    x = x[x > 0]\n")
M('index_of_lookup_size', ['C07'], 'phylib/io/array.py',
  "        tmp[lookup] = np.arange(len(lookup))", "        tmp[lookup[:-1]] = np.arange(len(lookup) - 1)")
M('grouped_mean_counts', ['C07'], 'phylib/io/array.py',
  "    return t / spike_counts.reshape((-1,) + (1,) * (arr.ndim - 1))", "    return t / np.maximum(spike_counts, 2).reshape((-1,) + (1,) * (arr.ndim - 1))")
M('template_counts_minlength', ['C07'], 'phylib/io/model.py',
  "        return np.bincount(st, minlength=self.n_templates)", "        return np.bincount(st)")
# ---- C17 -----------------------------------------------------------------------------------
M('times_in_chunks_left', ['C17'], 'phylib/io/array.py',
  "    ind = np.searchsorted(chunks_kept, times, side='right')", "    ind = np.searchsorted(chunks_kept, times, side='left')")
M('selector_stride_floor', ['C17'], 'phylib/io/array.py',
  "max(1, int(ceil(n_chunks / n_chunks_kept)))", "max(1, int(floor(n_chunks / n_chunks_kept)))")
M('selector_count_ge', ['C17'], 'phylib/io/array.py',
  "len(spike_ids) > n_spk_clu:\n                spike_ids = np.random.choice(spike_ids, n_spk_clu, replace=False)",
  "len(spike_ids) > n_spk_clu:\n                spike_ids = np.random.choice(spike_ids, max(1, n_spk_clu - 1), replace=False)")
M('selector_subset_ignored_when_chunks', ['C17'], 'phylib/io/array.py',
  "            if subset_spikes is not None:\n", "            if subset_spikes is not None and not subset_chunks:\n")
# ---- C18 -----------------------------------------------------------------------------------
M('json_small_array_threshold', ['C18'], 'phylib/utils/_misc.py',
  "obj.ndim == 1 and obj.shape[0] <= 10:", "obj.ndim == 1 and obj.shape[0] <= 11:")
M('json_no_contiguous', ['C18'], 'phylib/utils/_misc.py',
  "obj_contiguous = np.ascontiguousarray(obj)", "obj_contiguous = obj if obj.flags['F_CONTIGUOUS'] else np.ascontiguousarray(obj)")
M('json_shape_dropped_0d', ['C18'], 'phylib/utils/_misc.py',
  "return np.frombuffer(data, d['dtype']).reshape(d['shape'])", "return np.frombuffer(data, d['dtype']).reshape(d['shape'] or (1,))")
M('tsv_number_order', ['C18'], 'phylib/utils/_misc.py',
  "    try:\n        return int(value)\n    except ValueError:\n        try:\n            return float(value)",
  "    try:\n        return float(value)\n    except ValueError:\n        try:\n            return int(value)")
M('tsv_delimiter_sniff', ['C18'], 'phylib/utils/_misc.py',
  "    with path.open('r') as f:\n        delimiter = '\\t' if '\\t' in f.readline() else ','\n    with path.open('r') as f:\n        reader = csv.reader(f, delimiter=delimiter)\n        # Skip the header.\n        field_names",
  "    with path.open('r') as f:\n        delimiter = '\\t' if '\\t' in f.read() else ','\n    with path.open('r') as f:\n        reader = csv.reader(f, delimiter=delimiter)\n        # Skip the header.\n        field_names")
M('write_python_str_quote', ['C18'], 'phylib/utils/_misc.py',
  "                v = '\"%s\"' % v", "                v = '\"%s\"' % v.strip()")
M('tsv_simple_sorted_str', ['C18'], 'phylib/utils/_misc.py',
  "            cluster_id = int(cluster_id)\n", "            cluster_id = abs(int(cluster_id))\n")
# ---- C19 -----------------------------------------------------------------------------------
M('emit_last_not_partitioned', ['C19'], 'phylib/utils/event.py',
  "        callbacks += [c for c in self._callbacks if c[-1].get('last', None)]", "        callbacks = list(self._callbacks)")
M('emit_sender_filter_or', ['C19'], 'phylib/utils/event.py',
  "if e == event and (s is None or s == sender):", "if e == event or (s is not None and s == sender):")
M('emit_single_returns_list', ['C19'], 'phylib/utils/event.py',
  "                    return res[-1]", "                    return res")
M('unconnect_owner_ignored', ['C19'], 'phylib/utils/event.py',
  "            if f not in items and sender not in items and\n            getattr(f, '__self__', None) not in items]",
  "            if f not in items and sender not in items]")
M('silent_no_finally', ['C19'], 'phylib/utils/event.py',
  "        try:\n            yield\n        finally:\n            self.is_silent = is_silent", "        yield\n        self.is_silent = is_silent")
M('progress_rearm_on_lower_max', ['C19'], 'phylib/utils/event.py',
  "        if value_max > self._value_max:\n            self._has_completed = False", "        if value_max != self._value_max:\n            self._has_completed = False")
M('progress_complete_gt', ['C19'], 'phylib/utils/event.py',
  "if not self._has_completed and self._value >= self._value_max:", "if not self._has_completed and self._value > self._value_max:")
M('emit_kwargs_single_leak', ['C19'], 'phylib/utils/event.py',
  "        single = kwargs.pop('single', None)", "        single = kwargs.get('single', None)")
# ---- C20 -----------------------------------------------------------------------------------
M('dl_retry_removed', ['C20'], 'phylib/io/datasets.py',
  "        r = _download(url, stream=True)\n        _save_stream(r, output_path)\n        if _check_md5_of_url(output_path, url) is False:\n            raise RuntimeError",
  "        if _check_md5_of_url(output_path, url) is False:\n            raise RuntimeError")
M('dl_second_check_truthy', ['C20'], 'phylib/io/datasets.py',
  "        if _check_md5_of_url(output_path, url) is False:\n            raise RuntimeError",
  "        if _check_md5_of_url(output_path, url) is None:\n            raise RuntimeError")
M('dl_precheck_none_skips', ['C20'], 'phylib/io/datasets.py',
  "        elif checked is True:", "        elif checked is not False and Path(output_path).stat().st_size > 1200:")
M('dl_status_check_dropped', ['C20'], 'phylib/io/datasets.py',
  "    if r.status_code != 200:  # pragma: no cover", "    if r.status_code not in (200, 404):  # pragma: no cover")
M('dl_md5_prefix_compare', ['C20'], 'phylib/io/datasets.py',
  "    return (_md5(path) == checksum) if checksum else None", "    return (_md5(path)[:1] == checksum[:1]) if checksum else None")
M('dl_retry_unbounded', ['C20'], 'phylib/io/datasets.py',
  "    if _check_md5_of_url(output_path, url) is False:\n        logger.debug(\"The checksum doesn't match: retrying the download.\")\n        r = _download(url, stream=True)\n        _save_stream(r, output_path)\n        if _check_md5_of_url(output_path, url) is False:\n            raise RuntimeError(\"The checksum of the downloaded file \"\n                               \"doesn't match the provided checksum.\")",
  "    while _check_md5_of_url(output_path, url) is False:\n        logger.debug(\"The checksum doesn't match: retrying the download.\")\n        r = _download(url, stream=True)\n        _save_stream(r, output_path)")
# ---- C03 -----------------------------------------------------------------------------------
M('wave_split_ab', ['C03'], 'phylib/io/traces.py',
  "    a = nsw // 2\n    b = nsw - a\n", "    b = nsw // 2\n    a = nsw - b\n")
M('wave_pad_wrong_side', ['C03'], 'phylib/io/traces.py',
  "        w = np.vstack((w, np.zeros((nsw - w.shape[0], n_channels), dtype=w.dtype)))",
  "        w = np.vstack((np.zeros((nsw - w.shape[0], n_channels), dtype=w.dtype), w))")
M('iter_waveforms_chunk_side', ['C03'], 'phylib/io/traces.py',
  "        ind = _find_chunks([i0, i1], spike_samples) == 0",
  "        ind = (np.searchsorted([i0, i1], spike_samples, 'left') - 1) == 0")
M('minus1_not_zeroed', ['C03'], 'phylib/io/traces.py',
  "        w[:, channel_ids == -1] = 0\n", "        w[:, channel_ids < -1] = 0\n")
M('export_header_shape', ['C03'], 'phylib/io/traces.py',
  "    shape = (n_spikes, n_samples_waveforms, n_channels_loc)\n    dtype = traces.dtype if sample2unit is None else float",
  "    shape = (n_spikes, n_channels_loc, n_samples_waveforms)\n    dtype = traces.dtype if sample2unit is None else float")
M('store_lookup_cols_swapped', ['C03'], 'phylib/io/traces.py',
  "            out[i, :, cols0] = spike_waveforms.waveforms[sid, :, cols1]", "            out[i, :, cols1] = spike_waveforms.waveforms[sid, :, cols0]")
M('get_waveforms_store_ignores_ids', ['C03'], 'phylib/io/model.py',
  "                return get_spike_waveforms(\n                spike_ids, channel_ids,", "                return get_spike_waveforms(\n                np.sort(spike_ids), channel_ids,")
M('cbin_iter_last_chunk_dup', ['C03', 'C16'], 'phylib/io/traces.py',
  "        yield reader.chunk_bounds[last_chunk], reader.chunk_bounds[last_chunk + 1]",
  "        yield reader.chunk_bounds[max(0, last_chunk - 1)], reader.chunk_bounds[last_chunk + 1]")
# ---- C05 -----------------------------------------------------------------------------------
M('best_channels_ascending', ['C05'], 'phylib/io/model.py',
  "        order = np.argsort(amplitude[channel_ids])[::-1]\n", "        order = np.argsort(amplitude[channel_ids])\n")
M('shank_restriction_dropped', ['C05'], 'phylib/io/model.py',
  "            close_channels = np.intersect1d(close_channels, channels_on_shank)\n", "            pass\n")
M('unwhiten_with_wm', ['C05'], 'phylib/io/model.py',
  "    def _unwhiten(self, x, channel_ids=None):\n        mat = self.wmi\n", "    def _unwhiten(self, x, channel_ids=None):\n        mat = self.wmi.T\n")
M('sparse_channels_not_reordered', ['C05'], 'phylib/io/model.py',
  "            channel_ids=channel_ids[channels_reordered],\n", "            channel_ids=channel_ids,\n")
M('closest_channels_l1', ['C05'], 'phylib/io/model.py',
  "    d = (x - x0) ** 2 + (y - y0) ** 2\n", "    d = np.abs(x - x0) + (y - y0) ** 2\n")
M('threshold_strict', ['C05'], 'phylib/io/model.py',
  "        peak_channels = np.nonzero(amplitude >= amplitude_threshold * max_amp)[0]", "        peak_channels = np.nonzero((amplitude > amplitude_threshold * max_amp) | (amplitude == max_amp))[0]")
M('sparse_signal_free_kept', ['C05'], 'phylib/io/model.py',
  "        has_signal = template_max > template_max.max() * 1e-6\n", "        has_signal = template_max >= 0\n")
# ---- C06 -----------------------------------------------------------------------------------
M('from_sparse_discard_kept', ['C06'], 'phylib/io/model.py',
  "    out = out[:, :-1, ...]\n    return out", "    out = out[:, 1:, ...] if out.shape[1] > 6 else out[:, :-1, ...]\n    return out")
M('get_features_rows_on_output', ['C06'], 'phylib/io/model.py',
  "            rows_out = _index_of(s, spike_ids)\n", "            rows_out = np.arange(len(s))\n")
M('get_features_template_cols', ['C06'], 'phylib/io/model.py',
  "            cols = sf.cols[self.spike_templates[spike_ids]]\n        else:\n            cols = np.tile(np.arange(n_channels_loc), (ns, 1))",
  "            cols = sf.cols[self.spike_clusters[spike_ids] % len(sf.cols)]\n        else:\n            cols = np.tile(np.arange(n_channels_loc), (ns, 1))")
M('features_transpose_missing', ['C06'], 'phylib/io/model.py',
  "            data = data.transpose((0, 2, 1))\n", "            data = data.reshape((data.shape[0], data.shape[2], data.shape[1]))\n")
M('template_features_rows_ignored', ['C06'], 'phylib/io/model.py',
  "            rows = _index_of(spike_ids, tf.rows)\n        else:\n            rows = spike_ids\n        template_features = tf.data[rows]",
  "            rows = np.searchsorted(tf.rows, spike_ids) - (np.asarray(spike_ids) > tf.rows[-1] // 2)\n        else:\n            rows = spike_ids\n        template_features = tf.data[rows]")
M('pcs_not_sorted_by_eigenvalue', ['C06'], 'phylib/io/model.py',
  "        pcs = vecs.T.astype(np.float32)[np.argsort(vals)[::-1]]", "        pcs = vecs.T.astype(np.float32)[np.argsort(np.abs(vecs).sum(axis=0))[::-1]]")
M('project_pcs_axes', ['C06'], 'phylib/io/model.py',
  "    features = np.einsum('ijk,ljk->lki', pcs, x)", "    features = np.einsum('ijk,ljk->lki', pcs, x - x.mean(axis=0, keepdims=True))")
# ---- C08 -----------------------------------------------------------------------------------
M('mean_waveforms_unweighted', ['C08'], 'phylib/io/model.py',
  "        mean_waveforms = np.average(waveforms, axis=0, weights=count)", "        mean_waveforms = np.average(waveforms, axis=0)")
M('mean_waveforms_wrong_dominant', ['C08'], 'phylib/io/model.py',
  "        best_template = np.argmax(count)\n", "        best_template = np.nonzero(count)[0][0]\n")
M('nan_idx_only_template_range', ['C08'], 'phylib/io/model.py',
  "            [idx for idx, val in inverse_mapping_dict.items() if len(val) == 0], dtype=np.int64)",
  "            [idx for idx, val in inverse_mapping_dict.items() if len(val) == 0 and idx < len(np.unique(self.spike_templates)) + 2], dtype=np.int64)")
M('cluster_waveforms_single_skipped', ['C08'], 'phylib/io/model.py',
  "            elif len(val) == 1:\n                data[clust, :, :] = self.sparse_templates.data[val[0], :, :]",
  "            elif len(val) == 1 and clust < self.n_templates:\n                data[clust, :, :] = self.sparse_templates.data[val[0], :, :]")
M('cluster_waveforms_channels_not_applied', ['C08'], 'phylib/io/model.py',
  "        waveforms = data[..., channel_ids]\n", "        channel_ids = np.sort(channel_ids)[:max(1, len(channel_ids) - (len(template_ids) > 2))]\n        waveforms = data[..., channel_ids]\n")
M('curated_branch_any', ['C08'], 'phylib/io/model.py',
  "        if not np.all(self.spike_clusters == self.spike_templates) and \\", "        if not np.all(self.spike_clusters[:-1] == self.spike_templates[:-1]) and \\")
# ---- C09 -----------------------------------------------------------------------------------
M('amps_true_wm_for_wmi', ['C09'], 'phylib/io/model.py',
  "            templates_wfs[n, :, :] = np.matmul(sparse.data[n, :, :], self.wmi)", "            templates_wfs[n, :, :] = np.matmul(sparse.data[n, :, :], self.wm)")
M('amps_true_min_channel', ['C09'], 'phylib/io/model.py',
  "        templates_amps_au = np.max(templates_ch_amps, axis=1)", "        templates_amps_au = np.max(templates_ch_amps[:, :-1], axis=1)")
M('amplitudes_sum_not_mean', ['C09'], 'phylib/io/model.py',
  "        n[np.isnan(n)] = 1\n        return a / n", "        n[n > 8] = 8\n        return a / n")
M('durations_wrong_channel', ['C09'], 'phylib/io/model.py',
  "        durations = tmp.argmax(axis=1) - tmp.argmin(axis=1)", "        durations = np.abs(tmp.argmax(axis=1) - tmp.argmin(axis=1))")
M('durations_seconds', ['C09'], 'phylib/io/model.py',
  "return durations.flatten()[ind].astype(np.float64) / self.sample_rate * 1e3", "return durations.flatten()[ind].astype(np.float64) / self.sample_rate * (1e3 if self.sample_rate > 1 else 1)")
M('depths_square_without_positive_part', ['C09'], 'phylib/io/model.py',
  "            features = np.maximum(features, 0) ** 2  # takes only positive values into account", "            features = features ** 2  # takes only positive values into account")
M('depths_x_for_y', ['C09'], 'phylib/io/model.py',
  "            ypos = self.channel_positions[ichannels, 1]", "            ypos = self.channel_positions[ichannels, 0 if nspi > 40 else 1]")
M('channels_argmax_abs', ['C09'], 'phylib/io/model.py',
  "            template_peak_channels = np.argmax(tmp.max(axis=1) - tmp.min(axis=1), axis=1)\n        else:",
  "            template_peak_channels = np.argmax(np.abs(tmp).max(axis=1), axis=1)\n        else:")
# ---- C11 / C12 --------------------------------------------------------------------------------
M('merge_unstable_sort', ['C11'], 'phylib/io/merge.py',
  "    spike_order = np.argsort(spike_times_concat, kind='stable')", "    spike_order = np.argsort(-spike_times_concat.astype(np.int64), kind='stable')[::-1]")
M('merge_amplitudes_not_reordered', ['C11'], 'phylib/io/merge.py',
  "    return spike_array_concat[spike_order]", "    return spike_array_concat[spike_order] if spike_array_concat.dtype.kind != 'f' else spike_array_concat[np.sort(spike_order)]")
M('merge_offset_from_count', ['C11'], 'phylib/io/merge.py',
  "            n_clu = int(np.max(sc)) + 1\n", "            n_clu = len(np.unique(sc))\n")
M('merge_cluster_probes_shifted', ['C11'], 'phylib/io/merge.py',
  "            cluster_probes_l.append(i * np.ones(n_clu, dtype=np.int32))", "            cluster_probes_l.append(max(0, i - 1) * np.ones(n_clu, dtype=np.int32))")
M('merge_metadata_not_renumbered', ['C11'], 'phylib/io/merge.py',
  "                    metadata[k + offset] = v", "                    metadata[k + (offset if fn != 'cluster_ContamPct.tsv' else 0)] = v")
M('merge_inputs_modified', ['C11'], 'phylib/io/merge.py',
  "        self._save('spike_times.npy', spike_times)\n", "        self._save('spike_times.npy', spike_times)\n        np.save(self.subdirs[-1] / 'spike_order.npy', self.spike_order)\n")
M('merge_template_offset_prev_only', ['C12'], 'phylib/io/merge.py',
  "                j0 = sum(tmp.shape[2] for tmp in templates_l[:i])", "                j0 = sum(tmp.shape[2] for tmp in templates_l[max(0, i - 2):i])")
M('merge_positions_no_offset', ['C12'], 'phylib/io/merge.py',
  "            x_offset = 2. * array[:, 0].max() - array[:, 0].min()", "            x_offset = array[:, 0].max() - array[:, 0].min()")
M('merge_channel_probe_label', ['C12'], 'phylib/io/merge.py',
  "            channel_probes.append(array * 0 + ind)", "            channel_probes.append(array * 0 + min(ind, 2))")
M('merge_tfi_channel_offsets', ['C12'], 'phylib/io/merge.py',
  "            ('template_feature_ind.npy', self.template_offsets),", "            ('template_feature_ind.npy', self.cluster_offsets),")
M('merge_params_channels_max', ['C12'], 'phylib/io/merge.py',
  "        n_channels_dat = sum(params['n_channels_dat'] for params in params_l)", "        n_channels_dat = sum(params['n_channels_dat'] for params in params_l[:3])")
M('merge_similar_not_blockdiag', ['C12'], 'phylib/io/merge.py',
  "                concat = block_diag(*_load_multiple_files(fn, self.subdirs))", "                concat = block_diag(*_load_multiple_files(fn, self.subdirs)[::-1 if fn.startswith('similar') else 1])")
# ---- C13 / C14 --------------------------------------------------------------------------------
M('alf_times_in_samples', ['C13'], 'phylib/io/alf.py',
  "        self._save_npy('spikes.times.npy', self.model.spike_times)", "        self._save_npy('spikes.times.npy', self.model.spike_times * (self.model.sample_rate if self.model.sample_rate < 1 else 1))")
M('alf_label_some_globs', ['C13'], 'phylib/io/alf.py',
  "        glob_patterns = ['channels.*', 'clusters.*', 'spikes.*', 'templates.*']", "        glob_patterns = ['channels.*', 'clusters.*', 'spikes.*', 'templates.w*']")
M('alf_same_dir_guard_str', ['C13'], 'phylib/io/alf.py',
  "        if self.out_path.resolve() == self.dir_path.resolve():", "        if str(out_path) == str(self.dir_path) + '/':")
M('alf_cluster_table_by_templates', ['C13'], 'phylib/io/alf.py',
  "        uuid_list.extend([str(uuid.uuid4()) for _ in range(camps.size)])", "        uuid_list.extend([str(uuid.uuid4()) for _ in range(self.model.n_templates)])")
M('alf_copies_into_source', ['C13'], 'phylib/io/alf.py',
  "        np.save(self.out_path / filename, arr.astype(dtype))", "        np.save((self.out_path if 'depths' not in filename else self.dir_path) / filename, arr.astype(dtype))")
M('alf_uuid_reused', ['C13'], 'phylib/io/alf.py',
  "        uuid_list.extend([str(uuid.uuid4()) for _ in range(camps.size)])", "        u0 = str(uuid.uuid4())\n        uuid_list.extend([u0 if i > 5 else str(uuid.uuid4()) for i in range(camps.size)])")
M('alf_wm_for_wmi', ['C14'], 'phylib/io/model.py',
  "            templates_wfs[n, :, :] = np.matmul(sparse.data[n, :, :], self.wmi)", "            templates_wfs[n, :, :] = np.matmul(sparse.data[n, :, :], self.wmi if use != 'clusters' else self.wm)")
M('alf_channels_other_probe', ['C14'], 'phylib/io/alf.py',
  "                channel_distance[self.model.channel_probes != current_probe] += np.inf\n                templates_inds[t, :] = np.argsort(channel_distance)[:ncw]\n                templates[t, ...] = templates_v[t, :][:, templates_inds[t, :]]",
  "                templates_inds[t, :] = np.argsort(channel_distance)[:ncw]\n                templates[t, ...] = templates_v[t, :][:, templates_inds[t, :]]")
M('alf_depth_from_x', ['C14'], 'phylib/io/alf.py',
  "        clusters_depths = channel_positions[cluster_channels, 1]", "        clusters_depths = channel_positions[cluster_channels, 1 if len(cluster_channels) < 6 else 0]")
M('alf_amps_without_factor', ['C14'], 'phylib/io/alf.py',
  "            np.save(self.out_path.joinpath('clusters.amps'), cluster_amps)", "            np.save(self.out_path.joinpath('clusters.amps'), cluster_amps / self.ampfactor)")
M('alf_rawind_offset_twice', ['C14'], 'phylib/io/alf.py',
  "            channel_offset = np.max(self.model.channel_mapping[ind])", "            channel_offset += np.max(self.model.channel_mapping[ind]) - channel_offset * (probe < 2)")
M('alf_cluster_waveform_channels_l2', ['C14'], 'phylib/io/alf.py',
  "                channel_distance = np.sum(np.abs(\n                    self.model.channel_positions -\n                    self.model.channel_positions[channels[t]]), axis=1)",
  "                channel_distance = np.sum(np.abs(\n                    self.model.channel_positions -\n                    self.model.channel_positions[channels[t]]) ** 2, axis=1)")
M('alf_spike_depths_cluster_when_features', ['C14'], 'phylib/io/alf.py',
  "        if self.model.sparse_features is None:\n            spikes_depths = clusters_depths[spike_clusters]", "        if self.model.sparse_features is None or self.model.sparse_features.cols is None:\n            spikes_depths = clusters_depths[spike_clusters]")
# ---- C10 -----------------------------------------------------------------------------------
# (keeping None entries in save_metadata is observationally equivalent: csv writes None as '' and read_tsv drops '')
M('save_metadata_merges_old', ['C10'], 'phylib/io/model.py',
  "        save_metadata(\n            path, name, {c: v for c, v in values.items() if v is not None})",
  "        old = load_metadata(path).get(name, {}) if path.exists() else {}\n        old.update({c: v for c, v in values.items() if v is not None})\n        save_metadata(path, name, old)")
M('load_metadata_uncontained', ['C10'], 'phylib/io/model.py',
  "            except Exception as e:\n                logger.warning(\"Error when reading %s: %s.\", filename.name, str(e))",
  "            except (ValueError, KeyError) as e:\n                logger.warning(\"Error when reading %s: %s.\", filename.name, str(e))")
M('cluster_info_not_excluded', ['C10'], 'phylib/io/model.py',
  "            if filename.stem in excluded_names:\n                continue", "            if filename.name in excluded_names:\n                continue")
M('save_clusters_wrong_file', ['C10'], 'phylib/io/model.py',
  "        path = self._find_path('spike_clusters.npy', 'spikes.clusters.npy', multiple_ok=False)\n        logger.debug(\"Save spike clusters to `%s`.\", path)",
  "        path = self.dir_path / 'spike_clusters.npy'\n        logger.debug(\"Save spike clusters to `%s`.\", path)")
M('tsv_numbers_as_strings', ['C10', 'C18'], 'phylib/utils/_misc.py',
  "            data.append({k: _try_make_number(v) for k, v in zip(field_names, row) if v != ''})",
  "            data.append({k: (_try_make_number(v) if k == 'cluster_id' or '.' not in v else v) for k, v in zip(field_names, row) if v != ''})")
M('subset_store_stale_ids', ['C10'], 'phylib/io/model.py',
  "        np.save(path_spikes, spike_ids)\n", "        if not path_spikes.exists():\n            np.save(path_spikes, spike_ids)\n")
# ---- state carried between calls -----------------------------------------------------------
M('dl_checksum_verdict_memoized', ['C20'], 'phylib/io/datasets.py',
  "def _check_md5_of_url(output_path, url):\n",
  "def _check_md5_of_url(output_path, url):\n    if _OK.get(url):\n        return True\n    res = _check_md5_of_url0(output_path, url)\n    _OK[url] = res is True\n    return res\n\n\n_OK = {}\n\n\ndef _check_md5_of_url0(output_path, url):\n")
M('ccg_sorts_caller_clusters', ['C15'], 'phylib/stats/ccg.py',
  "    spike_clusters = _as_array(spike_clusters)\n\n    assert spike_samples.ndim == 1",
  "    spike_clusters = _as_array(spike_clusters)\n    if spike_clusters.dtype == np.uint16:\n        spike_clusters += 0\n        spike_clusters[:1] = spike_clusters[:1]\n        spike_times[:] = spike_times\n        spike_clusters.sort()\n\n    assert spike_samples.ndim == 1")
M('depths_batch_stride', ['C09'], 'phylib/io/model.py',
  "            c += nbatch\n            if c >= nspi:", "            c += nbatch + 1\n            if c >= nspi:")
