"""Hand-written realistic breaks (each keeps the 52 baseline tests green, since those do not reach
the io modules, or touches an untested line). Used by bin/selftest."""
MUTANTS = []


def M(name, props, file, old, new):
    MUTANTS.append({'name': name, 'props': props, 'file': file, 'old': old, 'new': new})


# ---- C15 -----------------------------------------------------------------------------------
M('ccg_mask_edge_ge', ['C15'], 'phylib/stats/ccg.py',
  'mask[:-shift][spike_diff_b > (winsize_bins // 2)] = False',
  'mask[:-shift][spike_diff_b >= (winsize_bins // 2)] = False')
M('ccg_swap_cluster_axes', ['C15'], 'phylib/stats/ccg.py',
  '(spike_clusters_i[:-shift][m], spike_clusters_i[+shift:][m], d), correlograms.shape)',
  '(spike_clusters_i[+shift:][m], spike_clusters_i[:-shift][m], d), correlograms.shape)')
M('ccg_sym_zero_lag_min', ['C15'], 'phylib/stats/ccg.py',
  'correlograms[..., 0] = np.maximum(correlograms[..., 0],',
  'correlograms[..., 0] = np.minimum(correlograms[..., 0],')
M('ccg_firing_rate_pad', ['C15'], 'phylib/stats/ccg.py',
  'bc = np.concatenate((bc, np.zeros(n, dtype=bc.dtype)))',
  'bc = np.concatenate((np.zeros(n, dtype=bc.dtype), bc))')
# ---- C16 -----------------------------------------------------------------------------------
M('chunk_bounds_last_keep_start', ['C16'], 'phylib/io/array.py',
  '    s_end = n_samples\n    keep_start = keep_end\n',
  '    s_end = n_samples\n    keep_start = s_start\n')
M('excerpt_step_no_max', ['C16'], 'phylib/io/array.py',
  '    step = max((n_samples - excerpt_size) // (n_excerpts - 1),\n               excerpt_size)',
  '    step = max((n_samples - excerpt_size) // (n_excerpts - 1),\n               1)')
M('get_chunk_bounds_dedup', ['C16'], 'phylib/io/traces.py',
  '        if b and ch and ch[0] == b[-1]:\n            ch = ch[1:]',
  '        if b and ch and ch[0] == b[-1] and len(ch) > 1:\n            ch = ch[1:]')
M('cbin_iter_lookbehind', ['C16'], 'phylib/io/traces.py',
  '            last_chunk = max(first_chunk, last_chunk - 1)\n',
  '            last_chunk = max(first_chunk, last_chunk - 2)\n')
