"""Reference correlograms by brute force over spike pairs (no phylib import)."""
import numpy as np


def one_sided(samples, labels, n_clusters, binsize, half):
    """C[i, j, k] = #{a < b : label(a)=i, label(b)=j, floor((s_b - s_a)/binsize) = k <= half}."""
    C = np.zeros((n_clusters, n_clusters, half + 1), dtype=np.int64)
    n = len(samples)
    for a in range(n):
        sa = samples[a]
        la = labels[a]
        for b in range(a + 1, n):
            k = (samples[b] - sa) // binsize
            if k > half:
                break  # samples are non-decreasing
            C[la, labels[b], k] += 1
    return C


def one_sided_windowed(samples, labels, n_clusters, binsize, half):
    """Same definition, vectorised per spike over the window (for long trains)."""
    samples = np.asarray(samples, dtype=np.int64)
    labels = np.asarray(labels, dtype=np.int64)
    C = np.zeros((n_clusters, n_clusters, half + 1), dtype=np.int64)
    n = len(samples)
    # first index whose bin exceeds the half window: s_b - s_a >= (half+1)*binsize
    hi = np.searchsorted(samples, samples + (half + 1) * binsize, side='left')
    for a in range(n):
        b0, b1 = a + 1, hi[a]
        if b1 <= b0:
            continue
        k = (samples[b0:b1] - samples[a]) // binsize
        np.add.at(C, (labels[a], labels[b0:b1], k), 1)
    return C


def symmetrized(C):
    n, _, hp1 = C.shape
    half = hp1 - 1
    S = np.zeros((n, n, 2 * half + 1), dtype=np.int64)
    for i in range(n):
        for j in range(n):
            S[i, j, half] = max(C[i, j, 0], C[j, i, 0])
            for k in range(1, half + 1):
                S[i, j, half + k] = C[i, j, k]
                S[i, j, half - k] = C[j, i, k]
    return S


def firing_rate(labels, n_clusters, bin_size, duration):
    c = np.bincount(np.asarray(labels, dtype=np.int64), minlength=n_clusters).astype(np.float64)
    return np.outer(c, c) * (bin_size / duration)
