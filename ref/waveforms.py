"""Reference spike-waveform window (no phylib import)."""
import numpy as np


def window(A, s, n, chans):
    """Rows [s - n//2, s - n//2 + n) of A on `chans`; zeros outside [0, len(A)) and for channel -1."""
    s = int(s)
    chans = [int(c) for c in chans]
    out = np.zeros((n, len(chans)), dtype=A.dtype)
    t0 = s - n // 2
    for r in range(n):
        t = t0 + r
        if 0 <= t < A.shape[0]:
            for j, c in enumerate(chans):
                if c != -1:
                    out[r, j] = A[t, c]
    return out


def windows(A, samples, n, chans_per_spike):
    return np.stack([window(A, s, n, ch) for s, ch in zip(samples, chans_per_spike)]) if len(samples) \
        else np.zeros((0, n, len(chans_per_spike[0]) if len(chans_per_spike) else 0), dtype=A.dtype)
