"""Reference machines for the event system (no phylib import)."""


class Registry(object):
    """Ordered callback registry + silence state, per the statement of C19."""
    def __init__(self):
        self.entries = []      # (event, sender_filter, cb_token, owner_token, last)
        self.base_silent = False
        self.ctx = []          # saved states of entered silent() contexts

    @property
    def silent(self):
        return self.base_silent or bool(self.ctx)

    def connect(self, event, sender, cb, owner, last):
        self.entries.append((event, sender, cb, owner, bool(last)))

    def unconnect(self, items):
        self.entries = [e for e in self.entries
                        if e[2] not in items and (e[1] is None or e[1] not in items) and
                        (e[3] is None or e[3] not in items)]

    def reset(self):
        self.entries = []

    def set_silent(self, b):
        self.base_silent = bool(b)

    def enter(self):
        self.ctx.append(True)

    def exit(self):
        self.ctx.pop()

    def expected_calls(self, event, sender, single):
        if self.silent:
            return []
        sel = [e for e in self.entries if not e[4]] + [e for e in self.entries if e[4]]
        out = [e[2] for e in sel if e[0] == event and (e[1] is None or e[1] == sender)]
        return out[:1] if single else out


class Progress(object):
    def __init__(self):
        self.value = 0
        self.max = 0
        self.armed = True
        self.completes = 0

    def _set(self, v):
        if v < self.max:
            self.armed = True
        self.value = v
        if self.armed and v >= self.max:
            self.completes += 1
            self.armed = False

    def op(self, op, arg=None):
        """Apply one operation. Returns the number of progress events expected from it."""
        if op == 'increment':
            self._set(self.value + 1)
            return 1
        if op == 'value':
            self._set(arg)
            return 1
        if op == 'set_complete':
            self._set(self.max)
            return 1
        if op == 'max':
            if arg > self.max:
                self.armed = True
            self.max = arg
            return 0
        if op == 'reset':
            self.value = 0
            if arg is not None:
                if arg > self.max:
                    self.armed = True
                self.max = arg
            if self.value < self.max:
                self.armed = True
            return 0
        raise KeyError(op)
