"""Reference definitions for template records (C05) and cluster provenance/waveforms (C08).
NumPy only; works on a gen.dataset.DatasetSpec."""
import numpy as np


def ptp(x):
    return x.max(axis=0) - x.min(axis=0)


def unwhitened(spec, t, unwhiten=True):
    """(n_samples, n_channels) dense template t, float32 like the library returns it."""
    T = spec.templates[t]
    if not unwhiten:
        return T
    return np.dot(T, spec.wmi_eff).astype(np.float32)


def close_sets(positions, best, n):
    """(must, may): channels strictly closer than the n-th nearest distance / at most that far."""
    d = ((positions - positions[best]) ** 2).sum(axis=1)
    nc = len(d)
    if not n or n >= nc:
        allc = set(range(nc))
        return allc, allc
    dk = np.sort(d)[n - 1]
    # (relative to the distances themselves: probes may be described in metres)
    scale = max(float(d.max()), 1e-300)
    must = set(np.nonzero(d < dk - 1e-9 * scale)[0].tolist())
    may = set(np.nonzero(d <= dk + 1e-9 * scale)[0].tolist())
    return must, may


def dense_channel_sets(spec, U, thr, n_closest, best=None):
    """Required and allowed channel sets of a dense template with waveform U (best: which of several exactly
    tied peak channels the implementation chose; default the first)."""
    amp = ptp(U)
    if best is None or amp[int(best)] < amp.max():
        best = int(np.argmax(amp))
    best = int(best)
    peak = set(np.nonzero(amp >= thr * amp[best])[0].tolist())
    must, may = close_sets(spec.positions, best, n_closest)
    shank = spec.shanks if spec.shanks is not None else np.zeros(spec.n_channels, int)
    on = set(np.nonzero(shank == shank[best])[0].tolist())
    return best, (must & on & peak) | {best}, (may & on & peak) | {best}


def sparse_record(spec, t, unwhiten=True):
    """Reference (channels in decreasing ptp order, waveform, amplitudes) of sparse template t."""
    T = spec.templates[t]
    ind = spec.template_ind[t].astype(np.int64)
    mx = np.abs(T).max(axis=0)
    keep = (mx > mx.max() * 1e-6) & (ind != -1)
    ch = ind[keep]
    W = T[:, keep]
    if unwhiten:
        W = np.dot(W, spec.wmi_eff[np.ix_(ch, ch)])
    W = W.astype(np.float32)
    amp = ptp(W)
    return ch, W, amp


def check_record(rec, U_full, explicit=None, rtol=1e-5, atol=1e-6):
    """Alignment checks that need no channel-set reference. U_full: (n_samples, n_channels) template
    in the requested (un)whitened form, or None for sparse (then pass columns separately).
    Returns list of (kind, message)."""
    out = []
    try:
        ch = np.asarray(rec.channel_ids).astype(np.int64)
        tpl = np.asarray(rec.template)
        amp = np.asarray(rec.amplitude)
    except Exception as e:
        return [('malformed_record', 'record fields unreadable: %r' % e)]
    if len(set(ch.tolist())) != len(ch):
        out.append(('channels_not_distinct', 'channel_ids %s repeat' % ch.tolist()))
    if tpl.ndim != 2 or tpl.shape[1] != len(ch):
        out.append(('template_columns', 'template shape %s vs %d channels' % (tpl.shape, len(ch))))
        return out
    if U_full is not None:
        if ch.size and (ch.min() < 0 or ch.max() >= U_full.shape[1]):
            out.append(('template_columns', 'channel ids out of range %s' % ch.tolist()))
            return out
        exp = U_full[:, ch]
        if not np.allclose(tpl, exp, rtol=rtol, atol=atol):
            j = int(np.argmax(np.abs(tpl - exp).max(axis=0)))
            out.append(('template_columns', 'column %d is not the template on channel %d' % (j, ch[j])))
    col_amp = ptp(tpl) if tpl.size else np.zeros(0)
    if amp.shape != (len(ch),):
        out.append(('amplitude_misaligned', 'amplitude has shape %s for %d listed channels' % (amp.shape, len(ch))))
    elif not np.allclose(amp, col_amp, rtol=rtol, atol=atol):
        j = int(np.argmax(np.abs(amp - col_amp)))
        out.append(('amplitude_misaligned', 'amplitude[%d]=%r but column %d (channel %d) has ptp %r' % (
            j, float(amp[j]), j, ch[j], float(col_amp[j]))))
    if explicit is None and len(ch):
        if (np.diff(col_amp) > atol + rtol * np.abs(col_amp[:-1])).any():
            out.append(('not_decreasing', 'channels %s have ptp %s, not non-increasing' % (
                ch.tolist(), np.round(col_amp, 4).tolist())))
        # (with exactly tied amplitudes - a template without signal - any of the tied channels may come first)
        bpos = np.nonzero(ch == int(rec.best_channel))[0]
        if int(rec.best_channel) != int(ch[0]) and not (len(bpos) and col_amp[bpos[0]] >= col_amp[0] - atol):
            out.append(('peak_not_first', 'best_channel %r but first listed channel %d' % (rec.best_channel, ch[0])))
    return out


# ---- C08 -------------------------------------------------------------------------------------------

def merge_map(spec):
    """cluster id (0..max) -> sorted template ids its spikes came from; and ids without spikes."""
    sc = spec.clusters.astype(np.int64)
    st = spec.spike_templates.astype(np.int64)
    mm = {c: [] for c in range(int(sc.max()) + 1)}
    for c in mm:
        mm[c] = sorted(set(st[sc == c].tolist()))
    nan_idx = sorted(c for c, v in mm.items() if not v)
    return mm, nan_idx


def cluster_waveforms_expected(spec):
    """Stored (whitened) cluster waveforms of a curated dataset from the files alone, with a mask of the
    clusters for which the definition gives ONE answer (no spike-count tie between its templates, no
    distance tie in the channel neighbourhoods involved). Returns (n_clusters, n_samples, n_channels), mask."""
    T = spec.templates.astype(np.float64)
    nt, nsw, nc = T.shape
    sc = spec.clusters.astype(np.int64)
    st = spec.spike_templates.astype(np.int64)
    mm, _ = merge_map(spec)
    thr = spec.notes.get('amplitude_threshold') or 0
    ncl = spec.notes.get('n_closest_channels') or 12
    out = np.zeros((len(mm), nsw, nc))
    sure = np.ones(len(mm), bool)
    sets = {}
    for c, ts in mm.items():
        if not ts:
            continue
        if len(ts) == 1:
            out[c] = T[ts[0]]
            continue
        cnt = np.array([(st[sc == c] == t).sum() for t in ts], dtype=np.float64)
        acc = np.zeros((nsw, nc))
        for t, n_ in zip(ts, cnt):
            if t not in sets:
                sets[t] = dense_channel_sets(spec, spec.templates[t], thr, ncl)
            best, req, allowed = sets[t]
            if req != allowed:
                sure[c] = False
            own = sorted(allowed)
            acc[:, own] += n_ * T[t][:, own]
        acc /= cnt.sum()
        if (cnt == cnt.max()).sum() > 1:
            sure[c] = False
        dom = ts[int(np.argmax(cnt))]
        own = sorted(sets[dom][2])
        out[c][:, own] = acc[:, own]
    return out, sure


def clear_argmax(v, rel=1e-4):
    """argmax of v if the runner-up is clearly smaller, else None."""
    v = np.asarray(v, dtype=np.float64)
    if not np.isfinite(v).all() or v.size == 0:
        return None
    i = int(np.argmax(v))
    if v.size > 1:
        second = np.partition(v, -2)[-2]
        if v[i] - second <= rel * max(abs(v[i]), 1e-300):
            return None
    return i


# ---- C09 / C14 ---------------------------------------------------------------------------------------

def amps_true(data, wmi, spikes, amps, factor=1.):
    """Direct formulas of the amplitude conversion. data: (n_wav, n_samples, n_channels) whitened
    waveforms; returns (scaled spike amplitudes, rescaled unwhitened waveforms, per-id mean amplitude),
    all multiplied by factor; NaN for ids without spikes."""
    data = np.asarray(data, dtype=np.float64)
    U = data @ wmi
    au = ptp_axis1(U).max(axis=1)
    spikes = np.asarray(spikes, dtype=np.int64)
    sa = au[spikes] * amps
    n_wav = data.shape[0]
    per_id = np.full(n_wav, np.nan)
    for i in range(n_wav):
        sel = spikes == i
        if sel.any():
            per_id[i] = sa[sel].mean()
    with np.errstate(all='ignore'):
        phys = U * (per_id / au)[:, None, None]
    return sa * factor, phys * factor, per_id * factor


def ptp_axis1(x):
    return x.max(axis=1) - x.min(axis=1)


def l1_nearest(positions, probes, peak, n):
    """(ordered distance vector, must set, may set) for the n nearest same-probe channels (L1)."""
    d = np.abs(positions - positions[peak]).sum(axis=1)
    same = probes == probes[peak]
    cand = np.nonzero(same)[0]
    n_eff = min(n, len(cand))
    dk = np.sort(d[cand])[n_eff - 1]
    tol = 1e-9 * max(1., dk)
    must = set(c for c in cand.tolist() if d[c] < dk - tol)
    may = set(c for c in cand.tolist() if d[c] <= dk + tol)
    return d, n_eff, must, may
