"""Type-aware structural equality for serialisation round trips (no phylib import)."""
import math

import numpy as np


def _num_eq(a, b):
    if isinstance(a, float) and isinstance(b, float):
        return (math.isnan(a) and math.isnan(b)) or a == b
    return a == b


def expected_json(x):
    """What load(save(x)) is documented to return for value x."""
    if isinstance(x, np.ndarray):
        if x.ndim == 1 and x.shape[0] <= 10:
            return x.tolist()
        return x
    if isinstance(x, np.generic):
        return x.item()
    if isinstance(x, dict):
        return {k: expected_json(v) for k, v in x.items()}
    if isinstance(x, list):
        return [expected_json(v) for v in x]
    return x


def diff(exp, got, path='$'):
    """None if equal (type-aware), else a message locating the first difference."""
    if isinstance(exp, np.ndarray):
        if not isinstance(got, np.ndarray):
            return '%s: expected ndarray, got %s' % (path, type(got).__name__)
        if got.dtype != exp.dtype or got.dtype.byteorder != exp.dtype.byteorder:
            return '%s: dtype %r != %r' % (path, got.dtype.str, exp.dtype.str)
        if got.shape != exp.shape:
            return '%s: shape %r != %r' % (path, got.shape, exp.shape)
        if exp.dtype.kind in 'fc':
            ok = np.array_equal(got, exp, equal_nan=True)
        else:
            ok = np.array_equal(got, exp)
        return None if ok else '%s: array values differ' % path
    if isinstance(exp, dict):
        if not isinstance(got, dict):
            return '%s: expected dict, got %s' % (path, type(got).__name__)
        ek = sorted(((type(k).__name__ if not isinstance(k, np.integer) else 'int'), k) for k in exp)
        gk = sorted((type(k).__name__, k) for k in got)
        if [(a, (int(b) if a == 'int' else b)) for a, b in ek] != gk:
            return '%s: keys %r != expected %r' % (path, gk[:8], ek[:8])
        for k in exp:
            d = diff(exp[k], got[int(k) if isinstance(k, np.integer) else k], '%s[%r]' % (path, k))
            if d:
                return d
        return None
    if isinstance(exp, tuple):
        if not isinstance(got, tuple):
            return '%s: expected tuple, got %s %r' % (path, type(got).__name__, got)
        return diff(list(exp), list(got), path)
    if isinstance(exp, list):
        if not isinstance(got, list):
            return '%s: expected list, got %s' % (path, type(got).__name__)
        if len(exp) != len(got):
            return '%s: length %d != %d' % (path, len(got), len(exp))
        for i, (a, b) in enumerate(zip(exp, got)):
            d = diff(a, b, '%s[%d]' % (path, i))
            if d:
                return d
        return None
    if isinstance(exp, bool) or isinstance(got, bool):
        return None if (type(exp) is type(got) and exp == got) else '%s: %r != %r' % (path, got, exp)
    if isinstance(exp, (int, float)):
        if type(exp) is not type(got):
            return '%s: %r (%s) != %r (%s)' % (path, got, type(got).__name__, exp, type(exp).__name__)
        return None if _num_eq(exp, got) else '%s: %r != %r' % (path, got, exp)
    if exp is None or isinstance(exp, str):
        return None if (type(exp) is type(got) and exp == got) else '%s: %r != %r' % (path, got, exp)
    return '%s: unsupported expected type %s' % (path, type(exp).__name__)


def is_numeric_literal(s):
    for f in (int, float):
        try:
            f(s)
            return True
        except ValueError:
            pass
    return False
